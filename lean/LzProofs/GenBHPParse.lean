/-
  LzProofs.GenBHPParse — the mechanical translation of bhp.go `(*backwardHashParser).Parse`
  (LzModel/Generated/CodeBHPParse.lean; `lcs` is an opaque parameter of the translation) versus the word-level
  model `LZ.ProbeW.parseW` (LzProofs/ProbeW.lean) for kind `.BHP`, under the specification `LcsSpec lcs`
  (`lcs p q` is the length of the longest common suffix of the elements of `p` and `q`).
  Port of LzProofs/GenHPParse.lean; the shared definitions (`resetBlk`, `parseErr`, `seqRep`, …) are imported.
-/
import LzProofs.GenBHPParseLemmas

set_option linter.unusedSimpArgs false
set_option linter.unusedVariables false

namespace LZ.GenBHPParse
open LZ LZ.Gen LZ.GenBuf LZ.GenHash LZ.GenProps LZ.GenHPParse

/-- the model parser state a Go `backwardHashParser` stands for -/
def ofBHPs (s : Gen.backwardHashParser) : Parser := ofDict .BHP (ofBHP s.BHPConfig) s.hashDictionary

/-- `n` of `Parse`: `min (len(s.Data) - s.W) s.BlockSize` in Go `int` arithmetic -/
def blockNB (s : Gen.backwardHashParser) : Int :=
  if (Int.ofNat s.hashDictionary.ParserBuffer.Data.len) - s.hashDictionary.ParserBuffer.W > s.BHPConfig.BlockSize then
    s.BHPConfig.BlockSize
  else
    (Int.ofNat s.hashDictionary.ParserBuffer.Data.len) - s.hashDictionary.ParserBuffer.W

/-- the bytes between `len(s.Data)` and `cap(s.Data)`: the `stale` argument of `ProbeW.parseW` -/
def staleOfB (s : Gen.backwardHashParser) : List UInt8 :=
  s.hashDictionary.ParserBuffer.Data.arr.drop s.hashDictionary.ParserBuffer.Data.len

/-- `staleOfB` is what `ProbeW.Backing` asks for: data ++ stale is the whole backing array -/
theorem staleOfB_length (s : Gen.backwardHashParser)
    (h : s.hashDictionary.ParserBuffer.Data.len ≤ s.hashDictionary.ParserBuffer.Data.arr.length) :
    s.hashDictionary.ParserBuffer.Data.data.length + (staleOfB s).length
      = s.hashDictionary.ParserBuffer.Data.cap := by
  unfold staleOfB Slice.data Slice.cap
  rw [List.length_take, List.length_drop]
  omega

/-- the straight-line prefix of `Parse`: nothing to parse ⇒ `(0, ErrEmptyBuffer)`, the block is
    emptied, the parser is unchanged; no panic, for every `grow` and `fuel` -/
theorem gen_bhp_parse_empty (grow : Nat → Nat → Nat) (fuel : Nat) (lcs : Slice → Slice → Int) (s : Gen.backwardHashParser) (blk : Gen.Block')
    (flags : Int) (h : blockNB s = 0) :
    backwardHashParser_Parse grow fuel lcs s blk flags = Res.ok (s, resetBlk blk, (0 : Int), ErrEmptyBuffer) := by
  have bind_ok : ∀ {α β : Type} (a : α) (f : α → Res β), Res.bind (Res.ok a) f = f a := fun _ _ => rfl
  have hs : Slice.slice blk.Literals 0 (0 : Int) = Res.ok { arr := blk.Literals.arr, len := 0 } := by
    unfold Slice.slice
    simp [Slice.cap]
  -- the two cases of the hand-written `blockNB`, as arithmetic facts
  have h' : ((s.hashDictionary.ParserBuffer.Data.len : Int) - s.hashDictionary.ParserBuffer.W > s.BHPConfig.BlockSize ∧
        s.BHPConfig.BlockSize = 0) ∨
      (¬ (s.hashDictionary.ParserBuffer.Data.len : Int) - s.hashDictionary.ParserBuffer.W > s.BHPConfig.BlockSize ∧
        (s.hashDictionary.ParserBuffer.Data.len : Int) - s.hashDictionary.ParserBuffer.W = 0) := by
    unfold blockNB at h
    simp only [Int.ofNat_eq_natCast] at h
    split at h
    · exact Or.inl ⟨‹_›, h⟩
    · exact Or.inr ⟨‹_›, h⟩
  unfold backwardHashParser_Parse backwardHashParser_Parse_nilable; simp only [Bool.false_eq_true]
  simp only [if_false]
  -- `n = min(len(s.Data) - s.W, s.BlockSize)` in whatever form the text computes it: its value is 0
  bhp_val (0 : Int)
  rw [hs, bind_ok]
  bhp_ifc
  rfl


/-! ## the whole `Parse` -/

/-- the hypotheses of `gen_bhp_parse` on the Go state: the representation invariant `DictWF`, the three fields
    `BHPConfig` duplicates (`s.WindowSize`, `s.BlockSize` resolve to `BHPConfig`, the model reads the buffer's
    copy; `minMatchLen` comes from `s.inputLen = s.hash.inputLen`, the model's from the configuration; only their
    values as natural numbers matter), `0 ≤ BlockSize`, `W ≤ len(Data)`, `1 ≤ inputLen`, `hashBits ≤ 32`
    (`shift ≥ 32`; the model's `hashValue` has no `uint32(…)` truncation) and `len(Data) < 2^32` (positions are
    stored as `uint32`).  All hold after every API history (`Verify`: `2 ≤ InputLen ≤ 8`, `HashBits ≤ 24`,
    `BufferSize ≤ 2^32 - 8`). -/
structure ParseOKB (s : Gen.backwardHashParser) : Prop where
  wf : DictWF s.hashDictionary
  cws : s.BHPConfig.WindowSize.toNat = s.hashDictionary.ParserBuffer.BufConfig.WindowSize.toNat
  cbs : s.BHPConfig.BlockSize.toNat = s.hashDictionary.ParserBuffer.BufConfig.BlockSize.toNat
  cil : s.BHPConfig.InputLen.toNat = s.hashDictionary.hash.inputLen.toNat
  bs0 : 0 ≤ s.BHPConfig.BlockSize
  w : s.hashDictionary.ParserBuffer.W ≤ s.hashDictionary.ParserBuffer.Data.len
  il1 : 1 ≤ s.hashDictionary.hash.inputLen
  sh : 32 ≤ s.hashDictionary.hash.shift.toNat
  small : s.hashDictionary.ParserBuffer.Data.len < 4294967296

/-- the Go state after `Parse`: new `W`, new table -/
@[reducible] def withWTB (s : Gen.backwardHashParser) (w : Int) (t : GSlice hashEntry) : Gen.backwardHashParser :=
  { hashDictionary :=
      { ParserBuffer := { s.hashDictionary.ParserBuffer with W := w },
        hash := { s.hashDictionary.hash with table := t } },
    BHPConfig := s.BHPConfig }

/-- the two bounds handed to the greedy loop (`inputEnd`, `len(_p)`) in any spelling -/
theorem loop1_argsB (grow : Nat → Nat → Nat) (lcs : Slice → Slice → Int) (ie : Int) (n : Nat) {ie' : Int} {n' : Nat}
    {A : List UInt8} {p : Slice} {mm : Int} {fuel : Nat} {i : Int} {s : Gen.backwardHashParser} {blk : Block'} {li : Int}
    (h1 : ie' = ie) (h2 : n' = n) :
    backwardHashParser_Parse_loop_1 grow lcs ie' { arr := A, len := n' } p mm fuel i s blk li =
      backwardHashParser_Parse_loop_1 grow lcs ie { arr := A, len := n } p mm fuel i s blk li := by
  subst h1 h2; rfl

/-- the arguments of `processSegment` in any spelling -/
theorem pseg_argsB (fuel : Nat) (f : Gen.hashDictionary) (a b : Int) {a' b' : Int} (h1 : a' = a) (h2 : b' = b) :
    hashDictionary_processSegment fuel f a' b' = hashDictionary_processSegment fuel f a b := by subst h1 h2; rfl

/-- the result tuple of `Parse` with the returned `n` in any spelling -/
theorem res4B {α β γ δ : Type} {a a' : α} {b b' : β} {c c' : γ} {d d' : δ}
    (h1 : a = a') (h2 : b = b') (h3 : c = c') (h4 : d = d') : Res.ok (a, b, c, d) = Res.ok (a', b', c', d') := by
  subst h1 h2 h3 h4; rfl

set_option maxHeartbeats 1000000 in
/-- **bhp.go `Parse`, translated, is `ProbeW.parseW` for kind `.BHP`** (same panic, same results), for every `lcs`
    that computes the longest common suffix.  Fuel: `2 * len(s.Data) + 3` instead of the `len(s.Data) + 3` of
    `gen_hp_parse`, because the re-indexing loop of bhp.go starts at the backward-extended position `i - m + 1`,
    which may lie up to `i - litIndex` positions before `i`; it is called with the fuel left after the iterations so
    far, so `len - i` units do not bound its `≤ inputEnd - (i - m + 1)` iterations. -/
theorem gen_bhp_parse (grow : Nat → Nat → Nat) (fuel : Nat) (lcs : Slice → Slice → Int) (hlcs : LcsSpec lcs)
    (s : Gen.backwardHashParser) (blk : Gen.Block') (flags : Int)
    (h : ParseOKB s) (hfl : 0 ≤ flags) (hfuel : 2 * s.hashDictionary.ParserBuffer.Data.len + 3 ≤ fuel) :
    match ProbeW.parseW (ofBHPs s) (staleOfB s) flags.toNat with
    | none => backwardHashParser_Parse grow fuel lcs s blk flags = Res.panic
    | some (s', n, e, b) =>
      ∃ t blk', backwardHashParser_Parse grow fuel lcs s blk flags = Res.ok (t, blk', (n : Int), parseErr e) ∧
        ofBHPs t = s' ∧ staleOfB t = staleOfB s ∧ (e = .ok ∨ e = .empty) ∧
        blk'.Sequences = b.seqs.map seqRep ∧ blk'.Literals.data = b.lits ∧ SWF blk'.Literals ∧ ParseOKB t := by
  have hP := h
  obtain ⟨⟨hpb, hhw⟩, cws, cbs, cil, hbs0, hW, hil1, hsh, hsmall⟩ := h
  obtain ⟨hgwf, hil0, hmask, hsh2, htl⟩ := hhw
  have hD : SWF s.hashDictionary.ParserBuffer.Data := hpb.data
  have hD' : s.hashDictionary.ParserBuffer.Data.len ≤ s.hashDictionary.ParserBuffer.Data.arr.length := hD
  have hW0 := hpb.w
  have hdl : s.hashDictionary.ParserBuffer.Data.data.length = s.hashDictionary.ParserBuffer.Data.len := data_length hD
  have hbN : (ofBHPs s).blockN = Min.min (s.hashDictionary.ParserBuffer.Data.len - s.hashDictionary.ParserBuffer.W.toNat)
      s.BHPConfig.BlockSize.toNat := by
    show Min.min (s.hashDictionary.ParserBuffer.Data.data.length - _) s.hashDictionary.ParserBuffer.BufConfig.BlockSize.toNat = _
    rw [hdl, cbs]
    rfl
  have hnG : (if (Int.ofNat s.hashDictionary.ParserBuffer.Data.len) - s.hashDictionary.ParserBuffer.W > s.BHPConfig.BlockSize
      then s.BHPConfig.BlockSize
      else (Int.ofNat s.hashDictionary.ParserBuffer.Data.len) - s.hashDictionary.ParserBuffer.W) =
      (((ofBHPs s).blockN : Nat) : Int) := by
    rw [hbN]
    show (if (s.hashDictionary.ParserBuffer.Data.len : Int) - _ > _ then _ else (s.hashDictionary.ParserBuffer.Data.len : Int) - _) = _
    split <;> omega
  by_cases hn : (ofBHPs s).blockN = 0
  · have hg : blockNB s = 0 := by unfold blockNB; rw [hnG, hn]; rfl
    rw [gen_bhp_parse_empty grow fuel lcs s blk flags hg]
    unfold ProbeW.parseW
    simp only [hn, if_true]
    exact ⟨s, resetBlk blk, rfl, rfl, rfl, by simp, rfl, rfl, Nat.zero_le _, hP⟩
  -- the model side, without `do`
  rw [parseW_single_nf (ofBHPs s) (staleOfB s) flags.toNat (ofHash s.hashDictionary.hash) rfl hn]
  have hargs : ProbeW.processSegment1W (ofHash s.hashDictionary.hash) (ofBHPs s).buf.data (staleOfB s)
      (((ofBHPs s).buf.w : Int) - ((ofHash s.hashDictionary.hash).inputLen : Int) + 1) ((ofBHPs s).buf.w : Int) =
      ProbeW.processSegment1W (ofHash s.hashDictionary.hash) s.hashDictionary.ParserBuffer.Data.data
        (s.hashDictionary.ParserBuffer.Data.arr.drop s.hashDictionary.ParserBuffer.Data.len)
        ((s.hashDictionary.ParserBuffer.W - s.hashDictionary.hash.inputLen) + 1) s.hashDictionary.ParserBuffer.W := by
    have e1 : (((ofBHPs s).buf.w : Nat) : Int) = s.hashDictionary.ParserBuffer.W := by
      show ((s.hashDictionary.ParserBuffer.W.toNat : Nat) : Int) = _; omega
    have e2 : (((ofHash s.hashDictionary.hash).inputLen : Nat) : Int) = s.hashDictionary.hash.inputLen := by
      show ((s.hashDictionary.hash.inputLen.toNat : Nat) : Int) = _; omega
    rw [e1, e2]; rfl
  rw [hargs]
  have hps := gen_processSegment fuel s.hashDictionary ((s.hashDictionary.ParserBuffer.W - s.hashDictionary.hash.inputLen) + 1)
    s.hashDictionary.ParserBuffer.W hD hil0 hmask hsh hsh2 ⟨hgwf, htl⟩ hsmall (by omega)
  -- the Go side up to `processSegment`
  have hs0 : Slice.slice blk.Literals 0 (0 : Int) = Res.ok { arr := blk.Literals.arr, len := 0 } := by
    unfold Slice.slice
    simp [Slice.cap]
  generalize hG : backwardHashParser_Parse grow fuel lcs s blk flags = G
  unfold backwardHashParser_Parse backwardHashParser_Parse_nilable at hG; simp only [Bool.false_eq_true] at hG
  simp only [if_false] at hG
  -- `n = min(len(s.Data) - s.W, s.BlockSize)` in whatever form the text computes it
  bhp_val (((ofBHPs s).blockN : Nat) : Int) at hG
  rw [hs0, bind_ok] at hG
  bhp_ifc at hG
  -- the arguments of `processSegment` in any spelling
  rw [pseg_argsB fuel s.hashDictionary ((s.hashDictionary.ParserBuffer.W - s.hashDictionary.hash.inputLen) + 1)
    s.hashDictionary.ParserBuffer.W (by bhp_cond) (by bhp_cond)] at hG
  cases hp1 : ProbeW.processSegment1W (ofHash s.hashDictionary.hash) s.hashDictionary.ParserBuffer.Data.data
        (s.hashDictionary.ParserBuffer.Data.arr.drop s.hashDictionary.ParserBuffer.Data.len)
        ((s.hashDictionary.ParserBuffer.W - s.hashDictionary.hash.inputLen) + 1) s.hashDictionary.ParserBuffer.W with
  | none =>
    rw [hp1] at hps
    simp only [] at hps
    rw [hps] at hG
    exact hG.symm
  | some h' =>
    rw [hp1] at hps
    obtain ⟨t0, ht0, rfl, hps⟩ := hps
    rw [hps, bind_ok] at hG
    rw [Option.bind_some]
    dsimp only at hG
    -- names for the natural numbers
    obtain ⟨Wn, hWn⟩ : ∃ Wn : Nat, s.hashDictionary.ParserBuffer.W = (Wn : Int) :=
      ⟨s.hashDictionary.ParserBuffer.W.toNat, by omega⟩
    have hwn : (ofBHPs s).buf.w = Wn := by
      show s.hashDictionary.ParserBuffer.W.toNat = Wn; omega
    generalize hnN : (ofBHPs s).blockN = nN at hG hn hbN ⊢
    rw [hwn]
    have hWn' : s.hashDictionary.ParserBuffer.W.toNat = Wn := by omega
    rw [hWn'] at hbN
    have hLlen : Wn + nN ≤ s.hashDictionary.ParserBuffer.Data.len := by omega
    have hpm : List.take (Wn + nN) (ofBHPs s).buf.data = s.hashDictionary.ParserBuffer.Data.arr.take (Wn + nN) := by
      show (s.hashDictionary.ParserBuffer.Data.arr.take _).take _ = _
      rw [List.take_take, Nat.min_eq_left hLlen]
    have hbeh : List.drop (Wn + nN) (ofBHPs s).buf.data ++ staleOfB s =
        s.hashDictionary.ParserBuffer.Data.arr.drop (Wn + nN) := behind_eq _ _ _ hLlen
    have hws : (ofBHPs s).buf.cfg.windowSize = s.BHPConfig.WindowSize.toNat := by rw [cws]; rfl
    have hmmM : (ofBHPs s).minMatch = Min.min 3 s.hashDictionary.hash.inputLen.toNat := by
      show Min.min 3 s.BHPConfig.InputLen.toNat = _; rw [cil]
    have hkind : ((ofBHPs s).kind == Kind.BHP) = true := rfl
    have hpl : (s.hashDictionary.ParserBuffer.Data.arr.take (Wn + nN)).length = Wn + nN := by
      rw [List.length_take]; omega
    rw [hpm, hbeh, hws, hmmM, hkind, hpl]
    simp only [ofHashT_inputLen]
    -- p := s.Data[:s.W+n]
    rw [hWn, slice_okB s.hashDictionary.ParserBuffer.Data 0 (Wn + nN) (by bhp_cond) (by bhp_cond)
      (Nat.zero_le _) (by omega), bind_ok] at hG
    simp only [List.drop_zero, Nat.sub_zero] at hG
    generalize hA : s.hashDictionary.ParserBuffer.Data.arr = A at hG hD' hpl ⊢
    obtain ⟨iln, hiln⟩ : ∃ iln : Nat, s.hashDictionary.hash.inputLen = (iln : Int) :=
      ⟨s.hashDictionary.hash.inputLen.toNat, by omega⟩
    have hiln' : s.hashDictionary.hash.inputLen.toNat = iln := by omega
    rw [hiln'] at *
    rw [hiln] at hG
    -- `minMatchLen = min(3, s.inputLen)` in whatever form the text computes it
    bhp_val ((Min.min 3 iln : Nat) : Int) at hG
    have hc0 : TCtx s.hashDictionary.hash.mask s.hashDictionary.hash.shift s.hashDictionary.hash.inputLen
        { arr := A, len := 0 } → True := fun _ => trivial
    -- the margin reslice `_p := s.Data[:inputEnd+7]`
    have hrm : ∀ il : Nat, ProbeW.resliceMargin (List.take (Wn + nN) A) (List.drop (Wn + nN) A) il =
        if ((Wn + nN : Nat) : Int) - (il : Int) + 1 + 7 < 0 ∨ (A.length : Int) < ((Wn + nN : Nat) : Int) - (il : Int) + 1 + 7
        then none else some () := by
      intro il; unfold ProbeW.resliceMargin
      rw [List.take_append_drop, hpl]
    rw [hrm]
    by_cases hmar : ((Wn + nN : Nat) : Int) - (iln : Int) + 1 + 7 < 0 ∨
        (A.length : Int) < ((Wn + nN : Nat) : Int) - (iln : Int) + 1 + 7
    · rw [if_pos hmar]
      rw [slice_panic _ _ _ (by rw [hA]; simp only [Int.ofNat_eq_natCast]; omega)] at hG
      exact hG.symm
    rw [if_neg hmar, Option.bind_some]
    have hcapE : ((((Wn + nN : Nat) : Int) - (iln : Int) + 1 + 7).toNat) ≤ s.hashDictionary.ParserBuffer.Data.arr.length := by
      rw [hA]; omega
    rw [slice_okB s.hashDictionary.ParserBuffer.Data 0 ((((Wn + nN : Nat) : Int) - (iln : Int) + 1 + 7).toNat)
      (by bhp_cond) (by bhp_cond) (Nat.zero_le _) hcapE, bind_ok] at hG
    simp only [List.drop_zero, Nat.sub_zero] at hG
    rw [hA] at hG
    -- the greedy loop
    have hloop : ∃ (st' : LoopSt HashT) (t' : GSlice hashEntry) (blk' : Block'),
        ProbeW.greedyLoopW (ProbeW.hpProbeW s.BHPConfig.WindowSize.toNat (Min.min 3 iln) (Wn + nN + 1 - iln) true
            (A.drop (Wn + nN))) (A.take (Wn + nN)) (Wn + nN + 1 - iln)
          { dict := ofHashT s.hashDictionary.hash t0, i := Wn, litIndex := Wn, seqs := [], lits := [] } = some st' ∧
        backwardHashParser_Parse_loop_1 grow lcs (((Wn + nN : Nat) : Int) - (iln : Int) + 1)
          { arr := A, len := (((Wn + nN : Nat) : Int) - (iln : Int) + 1 + 7).toNat } { arr := A, len := Wn + nN }
          ((Min.min 3 iln : Nat) : Int) fuel (Wn : Int)
          { hashDictionary := setD s.hashDictionary t0, BHPConfig := s.BHPConfig }
          { Sequences := [], Literals := { arr := blk.Literals.arr, len := 0 } } (Wn : Int) =
          Res.ok ((st'.i : Int), setTB { hashDictionary := setD s.hashDictionary t0, BHPConfig := s.BHPConfig } t', blk',
            (st'.litIndex : Int)) ∧
        TOK s.hashDictionary.hash.shift t' ∧ st'.dict = ofHashT s.hashDictionary.hash t' ∧
        blk'.Sequences = st'.seqs.map seqRep ∧ blk'.Literals.data = st'.lits ∧ SWF blk'.Literals ∧
        Wn ≤ st'.litIndex ∧ st'.litIndex ≤ Wn + nN := by
      have hmmI : ((Min.min 3 iln : Nat) : Int) = ((Min.min 3 iln : Nat) : Int) := rfl
      by_cases h0 : (Wn : Int) < ((Wn + nN : Nat) : Int) - (iln : Int) + 1
      · have h0' : (Wn : Int) < ((Wn + nN : Nat) : Int) - (iln : Int) + 1 := h0
        have hEI : ((Wn + nN : Nat) : Int) - (iln : Int) + 1 = ((Wn + nN + 1 - iln : Nat) : Int) := by
          omega
        have hE7 : (((Wn + nN : Nat) : Int) - (iln : Int) + 1 + 7).toNat = Wn + nN + 1 - iln + 7 := by
          rw [hEI]; omega
        rw [hE7]
        have hmar' : ¬ ((A.length : Int) < ((Wn + nN : Nat) : Int) - (iln : Int) + 1 + 7) := fun hc => hmar (Or.inr hc)
        exact loop1_eqB grow lcs hlcs _ _ A (Wn + nN) (Wn + nN + 1 - iln) (Min.min 3 iln) s.BHPConfig.WindowSize.toNat hEI hmmI
          (by omega) (by omega) (by omega) (by omega) (by omega)
          (Wn + nN + 1 - iln - Wn) fuel Wn Wn (Wn : Int) (Wn : Int)
          { hashDictionary := setD s.hashDictionary t0, BHPConfig := s.BHPConfig }
          { Sequences := [], Literals := { arr := blk.Literals.arr, len := 0 } } [] []
          (by omega) (by omega) (Nat.le_refl _) rfl rfl (by omega)
          ⟨by show Wn + nN + 1 - iln + 7 ≤ A.length; omega, hmask, hsh, hsh2,
            by show Wn + nN + 1 - iln + 7 < _; omega⟩
          ht0 rfl rfl rfl (Nat.zero_le _)
      · have h0' : ¬ (Wn : Int) < ((Wn + nN : Nat) : Int) - (iln : Int) + 1 := h0
        obtain ⟨f, rfl⟩ : ∃ f, fuel = f + 1 := ⟨fuel - 1, by omega⟩
        refine ⟨_, t0, { Sequences := [], Literals := { arr := blk.Literals.arr, len := 0 } },
          ProbeW.greedyLoopW_done _ _ _ _ (by show ¬ Wn < Wn + nN + 1 - iln; omega), ?_, ht0, rfl, rfl,
          rfl, Nat.zero_le _, Nat.le_refl _, by show Wn ≤ Wn + nN; omega⟩
        rw [backwardHashParser_Parse_loop_1]
        bhp_ifc
    obtain ⟨st', t', blk', hgl, hl1, ht', hdict', hseq', hlit', hswf', hli1, hli2⟩ := hloop
    -- the bounds handed to the loop, in whatever spelling
    rw [loop1_argsB grow lcs (((Wn + nN : Nat) : Int) - (iln : Int) + 1)
      ((((Wn + nN : Nat) : Int) - (iln : Int) + 1 + 7).toNat) (by bhp_cond) (by bhp_cond), hl1, bind_ok] at hG
    dsimp only at hG
    unfold ProbeW.runGreedyW
    simp only [Option.bind_eq_bind, Option.pure_def]
    rw [hgl, Option.bind_some, Option.bind_some]
    dsimp only
    have hPt : ∀ w' : Nat, w' ≤ Wn + nN → ParseOKB (withWTB s (w' : Int) t') := by
      intro w' hw'
      exact ⟨⟨⟨hD, by show (0 : Int) ≤ (w' : Int); omega, hpb.off, hpb.ss, hpb.bs⟩, ⟨ht'.1, hil0, hmask, hsh2, ht'.2⟩⟩,
        cws, cbs, cil, hbs0,
        by show (w' : Int) ≤ ((s.hashDictionary.ParserBuffer.Data.len : Nat) : Int); omega, hil1, hsh, hsmall⟩
    have hslen : blk'.Sequences.length = st'.seqs.length := by rw [hseq', List.length_map]
    unfold finishBlock
    by_cases hfin : flags.toNat % 2 = 1 ∧ st'.seqs ≠ []
    · rw [if_pos hfin]
      have hne : st'.seqs.length ≠ 0 := fun hc => hfin.2 (List.eq_nil_of_length_eq_zero hc)
      have hfl1 : iand flags 1 ≠ 0 := (iand_one flags hfl).mpr hfin.1
      bhp_ifc at hG
      rw [bind_ok] at hG
      dsimp only at hG
      refine ⟨withWTB s (st'.litIndex : Int) t', blk', hG.symm.trans ?_, ?_, rfl, Or.inl rfl, hseq', hlit', hswf', hPt _ hli2⟩
      · rw [hWn]
        exact res4B rfl rfl (by bhp_cond) rfl
      · rw [hdict']; rfl
    · rw [if_neg hfin]
      have hcond : iand flags 1 = 0 ∨ blk'.Sequences.length = 0 := by
        by_cases h1 : iand flags 1 = 0
        · exact Or.inl h1
        · refine Or.inr ?_
          rw [hslen]
          cases hsq : st'.seqs with
          | nil => rfl
          | cons a l => exact absurd ⟨(iand_one flags hfl).mp h1, by rw [hsq]; exact List.cons_ne_nil _ _⟩ hfin
      bhp_ifc at hG
      rw [slice_okB _ st'.litIndex (Wn + nN) (by bhp_cond) (by bhp_cond) hli2
        (by show Wn + nN ≤ A.length; omega), bind_ok, bind_ok] at hG
      dsimp only at hG
      refine ⟨withWTB s ((Wn + nN : Nat) : Int) t',
        { Sequences := blk'.Sequences,
          Literals := Slice.append grow blk'.Literals ((A.drop st'.litIndex).take (Wn + nN - st'.litIndex)) },
        hG.symm.trans ?_, ?_, rfl, Or.inl rfl, hseq', ?_,
        swf_append grow _ hswf' _, hPt _ (Nat.le_refl _)⟩
      · rw [hWn, hpl]
        exact res4B rfl rfl (by bhp_cond) rfl
      · rw [hdict', hpl]; rfl
      · rw [(append_spec grow blk'.Literals hswf' _).1, hlit']
        show _ ++ (A.drop st'.litIndex).take (Wn + nN - st'.litIndex) = _ ++ (A.take (Wn + nN)).drop st'.litIndex
        rw [List.drop_take]

/-- **Go text → list-level model.**  For a Go state that abstracts to a state reachable through the API
    (`NewParser`, then any history of `Write`, `ReadFrom`, `Parse`, `Parse(nil)`, `Shrink`, `Reset`), the translated
    `Parse` does not panic and returns the representation of the LIST-LEVEL model `Parser.parse` — the function on
    which C01/C02/C03/C19 are proved. -/
theorem gen_bhp_parse_model (grow : Nat → Nat → Nat) (fuel : Nat) (lcs : Slice → Slice → Int) (hlcs : LcsSpec lcs)
    (s : Gen.backwardHashParser) (blk : Gen.Block') (flags : Int)
    (h : ParseOKB s) (hfl : 0 ≤ flags) (hfuel : 2 * s.hashDictionary.ParserBuffer.Data.len + 3 ≤ fuel)
    (raw : Cfg) (s0 : Parser) (h0 : newParser .BHP raw = some s0) (ops : List POp)
    (hreach : ofBHPs s = (runOps (s0, Ghost.init) ops).1) :
    ∃ t blk', backwardHashParser_Parse grow fuel lcs s blk flags =
        Res.ok (t, blk', (((ofBHPs s).parse flags.toNat).2.1 : Int), parseErr ((ofBHPs s).parse flags.toNat).2.2.1) ∧
      ofBHPs t = ((ofBHPs s).parse flags.toNat).1 ∧ staleOfB t = staleOfB s ∧
      blk'.Sequences = ((ofBHPs s).parse flags.toNat).2.2.2.seqs.map seqRep ∧
      blk'.Literals.data = ((ofBHPs s).parse flags.toNat).2.2.2.lits ∧ SWF blk'.Literals ∧ ParseOKB t := by
  have hb : ProbeW.Backing (ofBHPs s) (staleOfB s) := staleOfB_length s h.wf.1.data
  have hW := ProbeW.parseW_reachable .BHP (Or.inr (Or.inl rfl)) raw s0 h0 ops (staleOfB s) flags.toNat (by rw [← hreach]; exact hb)
  rw [← hreach] at hW
  have hm := gen_bhp_parse grow fuel lcs hlcs s blk flags h hfl hfuel
  rw [hW] at hm
  obtain ⟨t, blk', h1, h2, h3, _, h5, h6, h7, h8⟩ := hm
  exact ⟨t, blk', h1, h2, h3, h5, h6, h7, h8⟩

end LZ.GenBHPParse

#print axioms LZ.GenBHPParse.gen_bhp_parse_empty
#print axioms LZ.GenBHPParse.gen_bhp_parse
#print axioms LZ.GenBHPParse.gen_bhp_parse_model
