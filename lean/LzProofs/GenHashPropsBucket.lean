/-
  LzProofs.GenHashPropsBucket — the bucket hash of the BUP parser: `BucketT.clear`
  (LzModel/Hash.lean) equals the mechanical translation of `bucketHash.reset` (bucket_hash.go;
  LzModel/Generated/CodeBucketTab.lean).

  Abstraction: `ofBucket g` — buckets as pairs (pos, val) of naturals, the ring indexes as
  naturals, `hashBits := 64 - shift`.  Invariant: len ≤ cap for both slices.

      K01 gen_bucketHash_reset   ofBucket (reset g) = (ofBucket g).clear

  `bucketHash.init`, `add` and `shiftOffsets` are NOT translated (pointer parameter that is
  written through, `&bh.indexes[h]`, sub-slices `b := bh.bucket(h)` / `p := b[i:]` that alias the
  table and are written through — the value model of slices cannot express them; see
  notes/init-translate.md).
-/
import LzModel.Generated.CodeBucketTab
import LzModel.Hash
import LzProofs.GenHashPropsBase

set_option linter.unusedSimpArgs false
set_option linter.unusedVariables false

namespace LZ.GenHash
open LZ LZ.Gen LZ.GenBuf

def zeroB : bucketEntry := { pos := 0, val := 0 }

def ofBEntry (e : bucketEntry) : Nat × Nat := (e.pos.toNat, e.val.toNat)

/-- the model state a Go `bucketHash` value stands for -/
def ofBucket (g : Gen.bucketHash) : BucketT :=
  { buckets := (g.buckets.data.map ofBEntry).toArray, indexes := (g.indexes.data.map UInt8.toNat).toArray,
    inputLen := g.inputLen.toNat, hashBits := 64 - g.shift.toNat, bucketSize := g.bucketSize.toNat }

def BucketWF (g : Gen.bucketHash) : Prop := GWF g.buckets ∧ SWF g.indexes

theorem bucketT_ext (a b : BucketT) (h1 : a.buckets.toList = b.buckets.toList) (h2 : a.indexes.toList = b.indexes.toList)
    (h3 : a.inputLen = b.inputLen) (h4 : a.hashBits = b.hashBits) (h5 : a.bucketSize = b.bucketSize) : a = b := by
  cases a; cases b
  simp only [BucketT.mk.injEq]
  exact ⟨Array.toList_inj.mp h1, Array.toList_inj.mp h2, h3, h4, h5⟩

theorem ofBEntry_zero' : ofBEntry { pos := 0, val := 0 } = (0, 0) := rfl

/-- K01 `bucketHash.reset` -/
theorem gen_bucketHash_reset (g : Gen.bucketHash) (h : BucketWF g) :
    ∃ g', bucketHash_reset g = Res.ok g' ∧ ofBucket g' = (ofBucket g).clear ∧ BucketWF g' := by
  obtain ⟨hb, hi⟩ := h
  unfold bucketHash_reset
  (try simp only [gen_helper, bind_ok])
  refine ⟨_, rfl, ?_, ?_⟩
  · apply bucketT_ext
    · simp only [ofBucket, BucketT.clear, gclear_data _ _ hb, List.map_replicate, ofBEntry_zero',
        Array.toList_replicate, List.size_toArray, List.length_map, gdata_length hb]
    · simp only [ofBucket, BucketT.clear, bclear_data _ hi, List.map_replicate, UInt8.toNat_zero,
        Array.toList_replicate, List.size_toArray, List.length_map, data_length hi]
    · rfl
    · rfl
    · rfl
  · exact ⟨gclear_wf _ _ hb, bclear_wf _ hi⟩

end LZ.GenHash

#print axioms LZ.GenHash.gen_bucketHash_reset
