/-
  LzProofs.GenHashPropsBucket — the bucket hash of the BUP parser: `BucketT.clear`
  (LzModel/Hash.lean) equals the mechanical translation of `bucketHash.reset` (bucket_hash.go;
  LzModel/Generated/CodeBucketTab.lean).

  Abstraction: `ofBucket g` — buckets as pairs (pos, val) of naturals, the ring indexes as
  naturals, `hashBits := 64 - shift`.  Invariant: len ≤ cap for both slices.

      K01 gen_bucketHash_reset   ofBucket (reset g) = (ofBucket g).clear

  `bucketHash.init`, `add` and `shiftOffsets` are NOT translated (pointer parameter that is
  written through, `&bh.indexes[h]`, sub-slices `b := bh.bucket(h)` / `p := b[i:]` that alias the
  table and are written through — the value model of slices cannot express them; see
  notes/init-translate.md).
-/
import LzModel.Generated.CodeBucketTab
import LzModel.Hash
import LzProofs.GenHashPropsBase

set_option linter.unusedSimpArgs false
set_option linter.unusedVariables false

namespace LZ.GenHash
open LZ LZ.Gen LZ.GenBuf

def zeroB : bucketEntry := { pos := 0, val := 0 }

def ofBEntry (e : bucketEntry) : Nat × Nat := (e.pos.toNat, e.val.toNat)

/-- the model state a Go `bucketHash` value stands for -/
def ofBucket (g : Gen.bucketHash) : BucketT :=
  { buckets := (g.buckets.data.map ofBEntry).toArray, indexes := (g.indexes.data.map UInt8.toNat).toArray,
    inputLen := g.inputLen.toNat, hashBits := 64 - g.shift.toNat, bucketSize := g.bucketSize.toNat }

def BucketWF (g : Gen.bucketHash) : Prop := GWF g.buckets ∧ SWF g.indexes

theorem bucketT_ext (a b : BucketT) (h1 : a.buckets.toList = b.buckets.toList) (h2 : a.indexes.toList = b.indexes.toList)
    (h3 : a.inputLen = b.inputLen) (h4 : a.hashBits = b.hashBits) (h5 : a.bucketSize = b.bucketSize) : a = b := by
  cases a; cases b
  simp only [BucketT.mk.injEq]
  exact ⟨Array.toList_inj.mp h1, Array.toList_inj.mp h2, h3, h4, h5⟩

theorem breset_loop1_eq (n : Nat) : ∀ (i : Nat) (k : Int) (g : Gen.bucketHash), k = (i : Int) → i + n ≤ g.buckets.len →
    bucketHash_reset_loop_1 n k g =
      Res.ok { g with buckets := { g.buckets with arr := mapLoop (fun _ => zeroB) zeroB n i g.buckets.arr } } := by
  induction n with
  | zero => intro i k g _ _; rfl
  | succ n ih =>
    intro i k g hk hlen
    simp only [bucketHash_reset_loop_1]
    rw [gset_ok _ _ i hk (by omega)]
    simp only [bind_ok]
    rw [ih (i + 1) (k + 1) _ (by omega) (by show i + 1 + n ≤ g.buckets.len; omega)]
    rfl

theorem breset_loop2_eq (n : Nat) : ∀ (i : Nat) (k : Int) (g : Gen.bucketHash), k = (i : Int) → i + n ≤ g.indexes.len →
    bucketHash_reset_loop_2 n k g =
      Res.ok { g with indexes := { g.indexes with arr := mapLoop (fun _ => (0 : UInt8)) 0 n i g.indexes.arr } } := by
  induction n with
  | zero => intro i k g _ _; rfl
  | succ n ih =>
    intro i k g hk hlen
    simp only [bucketHash_reset_loop_2]
    rw [bset_ok _ _ i hk (by omega)]
    simp only [bind_ok]
    rw [ih (i + 1) (k + 1) _ (by omega) (by show i + 1 + n ≤ g.indexes.len; omega)]
    rfl

/-- K01 `bucketHash.reset` -/
theorem gen_bucketHash_reset (g : Gen.bucketHash) (h : BucketWF g) :
    ∃ g', bucketHash_reset g = Res.ok g' ∧ ofBucket g' = (ofBucket g).clear ∧ BucketWF g' := by
  obtain ⟨hb, hi⟩ := h
  unfold bucketHash_reset
  rw [breset_loop1_eq g.buckets.len 0 0 g rfl (by omega)]
  simp only [bind_ok]
  rw [breset_loop2_eq g.indexes.len 0 0 _ rfl (by show 0 + g.indexes.len ≤ g.indexes.len; omega)]
  simp only [bind_ok]
  refine ⟨_, rfl, ?_, ?_⟩
  · apply bucketT_ext
    · simp only [ofBucket, BucketT.clear, GSlice.data, mapLoop_take _ _ _ _ hb, List.map_map,
        Array.toList_replicate, List.size_toArray, List.length_map]
      rw [show (ofBEntry ∘ fun _ => zeroB) = fun _ => ((0 : Nat), (0 : Nat)) from rfl, map_const_replicate]
    · simp only [ofBucket, BucketT.clear, Slice.data, mapLoop_take _ _ _ _ hi, List.map_map,
        Array.toList_replicate, List.size_toArray, List.length_map]
      rw [show (UInt8.toNat ∘ fun _ => (0 : UInt8)) = fun _ => (0 : Nat) from rfl, map_const_replicate]
    · rfl
    · rfl
    · rfl
  · exact ⟨by simpa [GWF, mapLoop_length] using hb, by simpa [SWF, mapLoop_length] using hi⟩

end LZ.GenHash

#print axioms LZ.GenHash.gen_bucketHash_reset
