/-
  LzProofs.GenPropsCfgOSAP — the parser configuration OSAPConfig (SetDefaults / Verify through the
  reflective helpers, which appear in the generated code as the field copies the extractor read
  from their source).  `ofOSAP` reads the generated struct as the model's union record `Cfg`
  (fields the kind does not have are zero), `toOSAP` is the inverse on `Cfg.restrict .OSAP`.
    G16 gen_setDefaults_OSAP   G17 gen_verify_OSAP   G18 gen_accepted_OSAP
  Part of the split of the former LzProofs/GenProps.lean: "the hand-written model equals the
  code that `tools/extract -code` regenerates from the Go source".  The generated code is
  emitted per topic (LzModel/Generated/Code<Topic>.lean); this file only imports the topic it
  talks about, so a Go function the translator refuses takes down this file and nothing else.
  Every theorem quantifies over ALL inputs; Go `int`/`int64` are unbounded `Int` on both sides
  (overflow is out of scope), `uint32`/`uint64` wrap around.  All names live in `LZ.GenProps`.
  The proofs are written against the MEANING of the generated functions (unfold, split every
  `if`, decide linear arithmetic), not against the shape of the generated term, so that
  behaviour-preserving rewrites of the Go source (De Morgan, swapped arms, reordered defaults,
  `x+x` for `2*x`, …) do not break them.
-/
import LzModel.Generated.CodeCfgOSAP
import LzProofs.GenPropsCfgBuf

set_option linter.unusedSimpArgs false

namespace LZ.GenProps
open LZ

def ofOSAP (c : Gen.OSAPConfig) : Cfg :=
  { shrinkSize := c.ShrinkSize, bufferSize := c.BufferSize, windowSize := c.WindowSize,
    blockSize := c.BlockSize,
    minMatchLen := c.MinMatchLen, maxMatchLen := c.MaxMatchLen, cost := c.Cost }

def toOSAP (c : Cfg) : Gen.OSAPConfig :=
  { ShrinkSize := c.shrinkSize, BufferSize := c.bufferSize, WindowSize := c.windowSize,
    BlockSize := c.blockSize,
    MinMatchLen := c.minMatchLen, MaxMatchLen := c.maxMatchLen, Cost := c.cost }

theorem ofOSAP_toOSAP (c : Cfg) : ofOSAP (toOSAP c) = c.restrict .OSAP := by
  simp [ofOSAP, toOSAP, Cfg.restrict, Kind.fields]

theorem toOSAP_ofOSAP (c : Gen.OSAPConfig) : toOSAP (ofOSAP c) = c := rfl

theorem gen_setDefaults_OSAP (c : Gen.OSAPConfig) :
    ofOSAP (Gen.OSAPConfig_SetDefaults c) = setDefaults .OSAP (ofOSAP c) := by
  have e : setDefaults .OSAP (ofOSAP c) = { bufDefaults (ofOSAP c) with
      minMatchLen := if c.MinMatchLen = 0 then Facts.defOsapMinMatchLen else c.MinMatchLen,
      maxMatchLen := if c.MaxMatchLen = 0 then Facts.defMaxMatchLen else c.MaxMatchLen,
      cost := if c.Cost = "" then Facts.defCost else c.Cost } := rfl
  rw [e]
  -- `if bc.BufferSize == 0 { bc.SetDefaults(); bc.BufferSize = bc.WindowSize }`
  have hz : c.BufferSize = 0 →
      (bufDefaults (ofBuf ⟨c.ShrinkSize, c.BufferSize, c.WindowSize, c.BlockSize⟩)).windowSize
        = (bufDefaults (ofOSAP c)).bufferSize :=
    fun h => (bufDefaults_bufferSize_of_zero (ofOSAP c) h).symm
  simp only [Gen.OSAPConfig_SetDefaults, gen_helper, gen_bufDefaults']
  repeat' split
  all_goals simp only [ofOSAP, Cfg.mk.injEq]
  all_goals repeat' apply And.intro
  all_goals first | gen_close | (apply hz; gen_close)

theorem gen_verify_OSAP (c : Gen.OSAPConfig) :
    Gen.OSAPConfig_Verify c = .ok ↔ verify .OSAP (ofOSAP c) = true := by
  have hb : bufVerify (ofOSAP c) = true ↔
      Gen.BufConfig_Verify ⟨c.ShrinkSize, c.BufferSize, c.WindowSize, c.BlockSize⟩ = .ok := by
    rw [gen_bufVerify]; rfl
  simp only [verify, Bool.and_eq_true, decide_eq_true_eq, hb]
  simp only [Gen.OSAPConfig_Verify, gen_helper, ofOSAP, Facts.defCost, Facts.maxInt32]
  gen_cases

theorem gen_accepted_OSAP (c : Cfg) :
    accepted .OSAP c = true ↔ Gen.OSAPConfig_Verify (Gen.OSAPConfig_SetDefaults (toOSAP c)) = .ok := by
  rw [gen_verify_OSAP, gen_setDefaults_OSAP, ofOSAP_toOSAP]; rfl

end LZ.GenProps
