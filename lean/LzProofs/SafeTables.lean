/-
  LzProofs.SafeTables — property C16, index safety at history level: in every state reachable from
  `NewParser` the hash tables have exactly the sizes the index computations assume
  (`TablesOK`), so together with `hashValue_lt` (LzProofs/SafeProps.lean) no table access of
  hash.go / bucket_hash.go is out of range.

  The model itself cannot "panic" on a table index (it uses `getD` / `setIfInBounds`, which ignore
  an index out of range); this file shows that the out-of-range case never occurs:

    single table (HP, BHP)        tbl.size = 2^hashBits
    two tables (DHP, BDHP)        the same for both
    bucket table (BUP)            buckets.size = 2^hashBits * bucketSize, indexes.size = 2^hashBits,
                                  1 ≤ bucketSize and every ring index `indexes[h] < bucketSize`

    C16_tables_reachable   `TablesOK` holds after every history of operations
    C16_table_access       the accesses: `hashValue x hashBits < tbl.size`,
                           `h * bucketSize + i < buckets.size` for `i < bucketSize` and for the ring
                           index `i = indexes[h]`, `h < indexes.size`
-/
import LzProofs.SafeProps
namespace LZ
open PBuf

/-! ## the greedy loop keeps any invariant of the dictionary its probe keeps -/

theorem greedyLoop_dict {δ} (F : Finder δ) (P : δ → Prop)
    (hP : ∀ d p i li, P d → P (F.probe d p i li).1) (p : List Byte) (stop : Nat) (st : LoopSt δ)
    (h : P st.dict) : P (greedyLoop F p stop st).dict := by
  fun_induction greedyLoop F p stop st with
  | case1 st hlt d hp ih =>
    apply ih
    have := hP st.dict p st.i st.litIndex h
    rw [hp] at this; exact this
  | case2 st hlt d s k o hp hk q ih =>
    apply ih
    have := hP st.dict p st.i st.litIndex h
    rw [hp] at this; exact this
  | case3 st hlt d s k o hp hk =>
    have := hP st.dict p st.i st.litIndex h
    rw [hp] at this; exact this
  | case4 st hlt => exact h

theorem runGreedy_fst {δ} (F : Finder δ) (d : δ) (p : List Byte) (w stop flags : Nat) :
    (Parser.runGreedy F d p w stop flags).1 =
      (greedyLoop F p stop { dict := d, i := w, litIndex := w, seqs := [], lits := [] }).dict := rfl

theorem runGreedy_dict {δ} (F : Finder δ) (P : δ → Prop)
    (hP : ∀ d p i li, P d → P (F.probe d p i li).1) (d : δ) (p : List Byte) (w stop flags : Nat)
    (h : P d) : P (Parser.runGreedy F d p w stop flags).1 := by
  rw [runGreedy_fst]; exact greedyLoop_dict F P hP p stop _ h

/-! ## two tables -/

def Hash2.SizeOK (d : Hash2) : Prop := d.h1.SizeOK ∧ d.h2.SizeOK

theorem HashT.sizeOK_set {h : HashT} (hs : h.SizeOK) (i : Nat) (v : Nat × Nat) :
    ({ h with tbl := h.tbl.setIfInBounds i v } : HashT).SizeOK := by
  simpa [HashT.SizeOK] using hs

theorem sizeOK_processSegment2 {h1 h2 : HashT} (hs1 : h1.SizeOK) (hs2 : h2.SizeOK) (data : List Byte)
    (a b : Int) :
    (processSegment2 h1 h2 data a b).1.SizeOK ∧ (processSegment2 h1 h2 data a b).2.SizeOK := by
  unfold processSegment2
  simp only []
  exact ⟨HashT.sizeOK_insertRange _ _ _ _ (HashT.sizeOK_insertRange _ _ _ _ hs1),
    HashT.sizeOK_insertRange _ _ _ _ hs2⟩

theorem sizeOK_dhpProbe (ws mm e1 e2 : Nat) (back : Bool) {d : Hash2} (hs : d.SizeOK) (p : List Byte)
    (i li : Nat) : (dhpProbe ws mm e1 e2 back d p i li).1.SizeOK := by
  obtain ⟨hs1, hs2⟩ := hs
  have t1 := HashT.sizeOK_set hs1 (hashValue (d.h1.key p i) d.h1.hashBits) (i, lo32 (d.h1.key p i))
  have t2 := HashT.sizeOK_set hs2 (hashValue (d.h2.key p i) d.h2.hashBits) (i, lo32 (d.h2.key p i))
  unfold dhpProbe
  simp only []
  split
  · -- first loop
    split
    · exact ⟨t1, t2⟩
    · split
      · exact ⟨t1, t2⟩
      · split
        · exact ⟨t1, t2⟩
        · refine ⟨HashT.sizeOK_insertRange _ _ _ _ t1, ?_⟩
          split
          · exact t2
          · exact HashT.sizeOK_insertRange _ _ _ _ t2
  · split
    · exact ⟨t1, hs2⟩
    · split
      · exact ⟨t1, hs2⟩
      · split
        · exact ⟨t1, hs2⟩
        · exact ⟨HashT.sizeOK_insertRange _ _ _ _ t1, hs2⟩

/-! ## bucket table -/

/-- sizes of the bucket table and range of the ring indexes -/
def BucketT.OK (b : BucketT) : Prop :=
  b.buckets.size = 2 ^ b.hashBits * b.bucketSize ∧ b.indexes.size = 2 ^ b.hashBits ∧
  1 ≤ b.bucketSize ∧ ∀ h, b.indexes.getD h 0 < b.bucketSize

theorem getD_replicate_zero (n h : Nat) : (Array.replicate n 0).getD h 0 = 0 := by
  rw [Array.getD_eq_getD_getElem?]
  by_cases hh : h < n
  · simp [hh]
  · simp [hh]

theorem BucketT.ok_new (il hb bs : Nat) (h1 : 1 ≤ bs) : (BucketT.new il hb bs).OK := by
  refine ⟨by simp [BucketT.new], by simp [BucketT.new], h1, fun h => ?_⟩
  show (Array.replicate (2 ^ hb) 0).getD h 0 < bs
  rw [getD_replicate_zero]; exact h1

theorem BucketT.ok_clear {b : BucketT} (hb : b.OK) : b.clear.OK := by
  obtain ⟨h1, h2, h3, h4⟩ := hb
  refine ⟨by simpa [BucketT.clear] using h1, by simpa [BucketT.clear] using h2, h3, fun h => ?_⟩
  show (Array.replicate b.indexes.size 0).getD h 0 < b.bucketSize
  rw [getD_replicate_zero]; exact h3

theorem BucketT.ok_add {b : BucketT} (hb : b.OK) (h pos val : Nat) : (b.add h pos val).OK := by
  obtain ⟨h1, h2, h3, h4⟩ := hb
  refine ⟨by simpa [BucketT.add] using h1, by simpa [BucketT.add] using h2, h3, fun j => ?_⟩
  show (b.indexes.setIfInBounds h _).getD j 0 < b.bucketSize
  rw [Array.getD_eq_getD_getElem?, Array.getElem?_setIfInBounds]
  have h4j := h4 j
  rw [Array.getD_eq_getD_getElem?] at h4j
  split
  · split
    · simp only [Option.getD_some]
      split <;> omega
    · simp only [Option.getD_none]; omega
  · exact h4j

theorem BucketT.ok_insert {b : BucketT} (hb : b.OK) (p : List Byte) (i : Nat) : (b.insert p i).OK :=
  BucketT.ok_add hb _ _ _

theorem BucketT.ok_insertRange (p : List Byte) : ∀ (n a : Nat) (b : BucketT), b.OK →
    (b.insertRange p a n).OK := by
  intro n
  induction n with
  | zero => intro a b hb; exact hb
  | succ n ih => intro a b hb; exact ih _ _ (BucketT.ok_insert hb p a)

theorem ok_processSegmentB {b : BucketT} (hb : b.OK) (data : List Byte) (a e : Int) :
    (processSegmentB b data a e).OK := by
  unfold processSegmentB
  simp only []
  repeat' split
  all_goals first | exact hb | exact BucketT.ok_insertRange _ _ _ _ hb

theorem ok_bupProbe (ws mm ie : Nat) {b : BucketT} (hb : b.OK) (p : List Byte) (i li : Nat) :
    (bupProbe ws mm ie b p i li).1.OK := by
  have h1 := BucketT.ok_add hb (hashValue (b.key p i) b.hashBits) i (lo32 (b.key p i))
  unfold bupProbe
  simp only []
  split
  · exact h1
  · exact BucketT.ok_insertRange _ _ _ _ h1

theorem sum_map_const {α} (g : α → Nat) (c : Nat) : ∀ (l : List α), (∀ x ∈ l, g x = c) →
    (l.map g).sum = l.length * c := by
  intro l
  induction l with
  | nil => intro _; simp
  | cons a l ih =>
    intro h
    simp only [List.map_cons, List.sum_cons, List.length_cons]
    rw [h a (by simp), ih (fun x hx => h x (by simp [hx])), Nat.add_mul, Nat.one_mul, Nat.add_comm]

theorem shiftBucket_spec (bs delta : Nat) (bucket : List (Nat × Nat)) (j : Nat)
    (hl : bucket.length ≤ bs) (hbs : 1 ≤ bs) :
    (BucketT.shiftBucket bs delta bucket j).1.length = bs ∧
    (BucketT.shiftBucket bs delta bucket j).2 < bs := by
  unfold BucketT.shiftBucket
  simp only []
  generalize hk : ((bucket.drop j ++ bucket.take j).filter fun e => decide (¬ e.1 < delta)) = kept0
  have hkl : kept0.length ≤ bucket.length := by
    rw [← hk]
    refine Nat.le_trans (List.length_filter_le _ _) ?_
    simp only [List.length_append, List.length_drop, List.length_take]; omega
  refine ⟨?_, ?_⟩
  · simp only [List.length_append, List.length_map, List.length_replicate]; omega
  · simp only [List.length_map]
    split <;> omega

theorem BucketT.ok_shiftOffsets {b : BucketT} (hb : b.OK) (delta : Nat) : (b.shiftOffsets delta).OK := by
  obtain ⟨h1, h2, h3, h4⟩ := hb
  unfold BucketT.shiftOffsets
  split
  · exact ⟨h1, h2, h3, h4⟩
  · simp only []
    have hbk : ∀ h, ((b.buckets.extract (h * b.bucketSize) ((h + 1) * b.bucketSize)).toList).length
        ≤ b.bucketSize := by
      intro h
      rw [Array.length_toList, Array.size_extract]
      have : (h + 1) * b.bucketSize = h * b.bucketSize + b.bucketSize := by
        rw [Nat.add_mul, Nat.one_mul]
      omega
    refine ⟨?_, ?_, h3, ?_⟩
    · show (List.flatten _).toArray.size = _
      rw [List.size_toArray, List.length_flatten, List.map_map, List.map_map,
        sum_map_const _ b.bucketSize]
      · rw [List.length_range, h2]
      · intro h _
        exact (shiftBucket_spec _ _ _ _ (hbk h) h3).1
    · show (List.map _ _).toArray.size = _
      rw [List.size_toArray, List.length_map, List.length_map, List.length_range, h2]
    · intro j
      show (List.map _ _).toArray.getD j 0 < b.bucketSize
      rw [Array.getD_eq_getD_getElem?]
      simp only [List.getElem?_toArray, List.getElem?_map]
      cases hj : (List.range b.indexes.size)[j]? with
      | none => simp only [Option.map_none, Option.getD_none]; omega
      | some h =>
        simp only [Option.map_some, Option.getD_some]
        exact (shiftBucket_spec _ _ _ _ (hbk h) h3).2

/-! ## the invariant of the dictionary -/

def TablesOK : Dict → Prop
  | .single h => h.SizeOK
  | .double d => d.SizeOK
  | .bucket b => b.OK
  | .gsap _ => True
  | .osap _ => True

theorem tablesOK_stepP (s : Parser) (op : POp) (hr : Room s.buf) (h : TablesOK s.dict) :
    TablesOK (stepP s op).dict := by
  cases op with
  | write p => exact h
  | readFrom r => exact h
  | parse flags =>
    show TablesOK (s.parse flags).1.dict
    by_cases hn : s.blockN = 0
    · rw [Parser.parse_empty s flags hn]; exact h
    have hm := Parser.marginOK_of_cap s hr.2 hn
    cases hd : s.dict with
    | single t =>
      rw [hd] at h
      rw [Parser.parse_single s flags t hd hn hm]
      exact runGreedy_dict _ HashT.SizeOK (fun d p i li hd' => sizeOK_hpProbe _ _ _ _ hd' p i li) _ _ _ _ _
        (sizeOK_processSegment1 h _ _ _)
    | double t =>
      rw [hd] at h
      rw [Parser.parse_double s flags t hd hn hm]
      have hp := sizeOK_processSegment2 h.1 h.2 s.buf.data ((s.buf.w : Int) - t.h2.inputLen + 1) s.buf.w
      exact runGreedy_dict _ Hash2.SizeOK (fun d p i li hd' => sizeOK_dhpProbe _ _ _ _ _ hd' p i li) _ _ _ _ _ hp
    | bucket t =>
      rw [hd] at h
      rw [Parser.parse_bucket s flags t hd hn hm]
      exact runGreedy_dict _ BucketT.OK (fun d p i li hd' => ok_bupProbe _ _ _ hd' p i li) _ _ _ _ _
        (ok_processSegmentB h _ _ _)
    | gsap t =>
      rw [Parser.parse_gsap s flags t hd hn]; trivial
    | osap t =>
      rw [Parser.parse_osap s flags t hd hn]
      simp only []
      split <;> trivial
  | parseNil =>
    show TablesOK s.parseNil.1.dict
    unfold Parser.parseNil
    simp only []
    split
    · exact h
    · cases hd : s.dict with
      | single t => rw [hd] at h; exact sizeOK_processSegment1 h _ _ _
      | double t => rw [hd] at h; exact sizeOK_processSegment2 h.1 h.2 _ _ _
      | bucket t => rw [hd] at h; exact ok_processSegmentB h _ _ _
      | gsap t => trivial
      | osap t => trivial
  | shrink =>
    show TablesOK s.shrink.1.dict
    unfold Parser.shrink
    simp only []
    split
    · exact h
    · cases hd : s.dict with
      | single t => rw [hd] at h; exact HashT.sizeOK_shiftOffsets h _
      | double t => rw [hd] at h; exact ⟨HashT.sizeOK_shiftOffsets h.1 _, HashT.sizeOK_shiftOffsets h.2 _⟩
      | bucket t => rw [hd] at h; exact BucketT.ok_shiftOffsets h _
      | gsap t => trivial
      | osap t => trivial
  | reset data capExtra =>
    show TablesOK (s.reset data capExtra).1.dict
    unfold Parser.reset
    simp only []
    split
    · unfold Parser.clearDict
      cases hd : s.dict with
      | single t => rw [hd] at h; exact HashT.sizeOK_clear h
      | double t => rw [hd] at h; exact ⟨HashT.sizeOK_clear h.1, HashT.sizeOK_clear h.2⟩
      | bucket t => rw [hd] at h; exact BucketT.ok_clear h
      | gsap t => trivial
      | osap t => trivial
    · exact h

theorem tablesOK_foldl (ops : List POp) : ∀ (s : Parser), Room s.buf → TablesOK s.dict →
    TablesOK (ops.foldl stepP s).dict := by
  induction ops with
  | nil => intro s _ h; exact h
  | cons op ops ih => intro s hr h; exact ih _ (room_stepP s op hr) (tablesOK_stepP s op hr h)

theorem newParser_tablesOK {k : Kind} {raw : Cfg} {s0 : Parser} (h0 : newParser k raw = some s0) :
    TablesOK s0.dict := by
  unfold newParser at h0
  simp only [] at h0
  split at h0
  · rename_i hv
    cases h0
    cases k <;> simp only [freshDict, TablesOK]
    · exact HashT.sizeOK_new _ _
    · exact HashT.sizeOK_new _ _
    · exact ⟨HashT.sizeOK_new _ _, HashT.sizeOK_new _ _⟩
    · exact ⟨HashT.sizeOK_new _ _, HashT.sizeOK_new _ _⟩
    · apply BucketT.ok_new
      simp only [verify, Bool.and_eq_true, decide_eq_true_eq] at hv
      have := hv.2.1
      have hmin : (1 : Int) ≤ Facts.minBucketSize := by decide
      omega
  · cases h0

/-- **C16, table sizes in every reachable state.**  After any history of operations on a parser
    created by `NewParser` (any kind, any accepted configuration) the search tables have the sizes
    fixed at creation: `2^hashBits` entries per hash table; `2^hashBits * bucketSize` bucket slots,
    `2^hashBits` ring indexes, each `< bucketSize`. -/
theorem C16_tables_reachable (k : Kind) (raw : Cfg) (s0 : Parser) (h0 : newParser k raw = some s0)
    (ops : List POp) : TablesOK (runOps (s0, Ghost.init) ops).1.dict := by
  rw [runOps_fst]
  exact tablesOK_foldl ops s0 (newParser_room h0) (newParser_tablesOK h0)

/-- **C16, every table access is in range** for tables satisfying `TablesOK`:
    `tbl[hashValue x hashBits]`; `indexes[h]`, `buckets[h*bucketSize + i]` for `i < bucketSize` and
    for the ring index `i = indexes[h]`, where `h = hashValue x hashBits`. -/
theorem C16_table_access :
    (∀ (t : HashT) (x : UInt64), t.SizeOK → hashValue x t.hashBits < t.tbl.size) ∧
    (∀ (b : BucketT) (x : UInt64), b.OK →
      hashValue x b.hashBits < b.indexes.size ∧
      (∀ i, i < b.bucketSize → hashValue x b.hashBits * b.bucketSize + i < b.buckets.size) ∧
      hashValue x b.hashBits * b.bucketSize + b.indexes.getD (hashValue x b.hashBits) 0
        < b.buckets.size) := by
  refine ⟨fun t x hs => (C16_index_safety.2.1 t x hs), ?_⟩
  intro b x ⟨h1, h2, h3, h4⟩
  refine ⟨by rw [h2]; exact hashValue_lt _ _, fun i hi => C16_index_safety.2.2.1 b x i h1 hi, ?_⟩
  exact C16_index_safety.2.2.1 b x _ h1 (h4 _)

/-! ## non-vacuity -/

example : ∃ s0, newParser .BUP { exCfg with bucketSize := 4 } = some s0 ∧
    TablesOK (runOps (s0, Ghost.init) [.write [1, 2, 3, 4, 5, 1, 2, 3, 4, 5], .parse 0, .shrink]).1.dict := by
  have h : (newParser .BUP { exCfg with bucketSize := 4 }).isSome = true := by decide
  obtain ⟨s0, hs⟩ := Option.isSome_iff_exists.mp h
  exact ⟨s0, hs, C16_tables_reachable _ _ s0 hs _⟩

end LZ

#print axioms LZ.C16_tables_reachable
#print axioms LZ.C16_table_access
