/-
  LzProofs.GenGSAPParseNil — the NIL PATH of the mechanical translation of gsap.go `(*gsap).Parse`:
  `gsap_Parse_nilable grow fuel lcp SS BI s true blk flags` (LzModel/Generated/CodeGSAPParse.lean; the pointer parameter
  `blk` is modelled by a flag plus a value, tools/extract/code_nil.go) is the call `Parse(nil, flags)`.
  For GSAP the nil path ONLY advances `W`: no sort, no bitset insert — so no panic case, no fuel bound, and no
  specification of the opaque callees `lcp`, `suffix.Sort`, `bitset.insert` is needed.
  No sorry, no axioms of its own.

    gen_gsap_parse_nonnil   `gsap_Parse … blk …` IS `gsap_Parse_nilable … false blk …` (the generated wrapper)
    gen_gsap_parseNil_empty nothing buffered ⇒ `(0, ErrEmptyBuffer)`, parser and ghost block unchanged
    saIdx_advance           the index invariant `len(sa) = 0 ∨ SaIdx` survives when only `W` changes and does not decrease
    gen_gsap_parseNil       for every Go state with `ParseOKG s`, every rank array `g`, every `blk` (a ghost), every
                            `flags`, `grow`, `fuel`, `lcp`, `SS`, `BI`: the translated `Parse(nil)` is
                            `Res.ok (t, blk, n, parseErr e)` — THE SAME `blk` — with `(n, e)` those of the list-level
                            `(ofGSAPs s g).parseNil`, `ofGSAPs t g` its state FOR THE SAME `g`, `ofGW t = ofGW s`
                            (`sa`, `isa`, bitset untouched), only `W` of the Go state changes, `ParseOKG t` (incl. `SaIdx`)
-/
import LzProofs.GenGSAPParse

set_option linter.unusedSimpArgs false
set_option linter.unusedVariables false

namespace LZ.GenGSAP
open LZ LZ.Gen LZ.GenBuf LZ.GenHash LZ.GenSuffix LZ.GenBitset LZ.GsapBits LZ.GenHPParse LZ.GenParse LZ.GenBUPParse
  LZ.GenProps

theorem gen_gsap_parse_nonnil (grow : Nat → Nat → Nat) (fuel : Nat) (lcp : Slice → Slice → Int)
    (SS : Slice → GSlice Int32 → Res (GSlice Int32)) (BI : Gen.bitset → List Int → Res Gen.bitset)
    (s : Gen.gsap) (blk : Gen.Block') (flags : Int) :
    gsap_Parse grow fuel lcp SS BI s blk flags = gsap_Parse_nilable grow fuel lcp SS BI s false blk flags := rfl

/-- the nil path, nothing buffered ⇒ `(0, ErrEmptyBuffer)`, the parser and the ghost block unchanged; for every `grow`,
    `fuel`, `flags` and every opaque callee -/
theorem gen_gsap_parseNil_empty (grow : Nat → Nat → Nat) (fuel : Nat) (lcp : Slice → Slice → Int)
    (SS : Slice → GSlice Int32 → Res (GSlice Int32)) (BI : Gen.bitset → List Int → Res Gen.bitset)
    (s : Gen.gsap) (blk : Gen.Block') (flags : Int) (h : blockNG s = 0) :
    gsap_Parse_nilable grow fuel lcp SS BI s true blk flags = Res.ok (s, blk, (0 : Int), ErrEmptyBuffer) := by
  -- the clamp of the text is normalised to a minimum (any `if`-spelling, either operand order), the test `n == 0`
  -- is evaluated in whatever spelling / arm order it comes
  have hmin : Min.min s.GSAPConfig.BlockSize ((Int.ofNat s.ParserBuffer.Data.len) - s.ParserBuffer.W) = 0 := by
    unfold blockNG at h; rw [← ite_lt_min]; exact h
  have hmin' : Min.min ((Int.ofNat s.ParserBuffer.Data.len) - s.ParserBuffer.W) s.GSAPConfig.BlockSize = 0 := by
    rw [Int.min_comm]; exact hmin
  unfold gsap_Parse_nilable
  simp only [if_true, gt_iff_lt, ge_iff_le, ite_lt_min, ite_le_min, hmin, hmin']
  try (first | rfl | simp)

/-- `SaIdx` reads `sa`, `isa`, `bits`, `W`, `len(Data)` only, and `W` only in `mark : sa[r] < W`, which is monotone in
    `W`: the index invariant survives when `W` does not decrease and `len(Data)` does not decrease -/
theorem saIdx_advance {t t' : Gen.gsap} (h : t.sa.len = 0 ∨ SaIdx t) (hsa : t'.sa = t.sa) (hisa : t'.isa = t.isa)
    (hbits : t'.bits = t.bits) (hW : t.ParserBuffer.W.toNat ≤ t'.ParserBuffer.W.toNat)
    (hl : t.ParserBuffer.Data.len ≤ t'.ParserBuffer.Data.len) : t'.sa.len = 0 ∨ SaIdx t' := by
  obtain ⟨pb', sa', isa', bits', cfg'⟩ := t'
  simp only at hsa hisa hbits hW hl
  subst hsa hisa hbits
  rcases h with h | h
  · exact Or.inl h
  · right
    refine ⟨h.lisa, Nat.le_trans h.le hl, h.nsa, h.nisa, h.rk, ?_, h.span⟩
    intro r hr
    have := h.mark r hr
    exact ⟨this.1, Nat.lt_of_lt_of_le this.2 hW⟩

/-- the Go state after `Parse(nil)`: only `W` -/
@[reducible] def withW (s : Gen.gsap) (w : Int) : Gen.gsap :=
  { s with ParserBuffer := { s.ParserBuffer with W := w } }

/-- **`Parse(nil, flags)` of gsap.go = `Parser.parseNil`**, per call, under `ParseOKG` alone. -/
theorem gen_gsap_parseNil (grow : Nat → Nat → Nat) (fuel : Nat) (lcp : Slice → Slice → Int)
    (SS : Slice → GSlice Int32 → Res (GSlice Int32)) (BI : Gen.bitset → List Int → Res Gen.bitset)
    (s : Gen.gsap) (blk : Gen.Block') (flags : Int) (g : GsapD) (h : ParseOKG s) :
    ∃ t, gsap_Parse_nilable grow fuel lcp SS BI s true blk flags =
        Res.ok (t, blk, (((ofGSAPs s g).parseNil).2.1 : Int), parseErr ((ofGSAPs s g).parseNil).2.2) ∧
      ofGSAPs t g = ((ofGSAPs s g).parseNil).1 ∧ ofGW t = ofGW s ∧
      (((ofGSAPs s g).parseNil).2.2 = .ok ∨ ((ofGSAPs s g).parseNil).2.2 = .empty) ∧
      t = withW s ((((ofGSAPs s g).parseNil).1.buf.w : Nat) : Int) ∧
      t.ParserBuffer.W = s.ParserBuffer.W + (((ofGSAPs s g).parseNil).2.1 : Int) ∧ ParseOKG t := by
  have hpb := h.pb
  have hD : SWF s.ParserBuffer.Data := hpb.data
  have hdl : s.ParserBuffer.Data.data.length = s.ParserBuffer.Data.len := data_length hD
  have hW0 := hpb.w
  have hWl := h.w
  have hbs0 := h.bs0
  have hwc : ((s.ParserBuffer.W.toNat : Nat) : Int) = s.ParserBuffer.W := by omega
  have hbN : (ofGSAPs s g).blockN =
      Min.min (s.ParserBuffer.Data.len - s.ParserBuffer.W.toNat) s.GSAPConfig.BlockSize.toNat := by
    show Min.min (s.ParserBuffer.Data.data.length - s.ParserBuffer.W.toNat) s.ParserBuffer.BufConfig.BlockSize.toNat = _
    rw [hdl, h.cbs]
  have hnG : (if (Int.ofNat s.ParserBuffer.Data.len) - s.ParserBuffer.W > s.GSAPConfig.BlockSize
      then s.GSAPConfig.BlockSize else (Int.ofNat s.ParserBuffer.Data.len) - s.ParserBuffer.W) =
      (((ofGSAPs s g).blockN : Nat) : Int) := by
    rw [hbN]
    show (if (s.ParserBuffer.Data.len : Int) - _ > _ then _ else (s.ParserBuffer.Data.len : Int) - _) = _
    split <;> omega
  by_cases hn : (ofGSAPs s g).blockN = 0
  · have hg : blockNG s = 0 := by unfold blockNG; rw [hnG, hn]; rfl
    rw [Parser.parseNil_empty _ hn]
    refine ⟨s, gen_gsap_parseNil_empty grow fuel lcp SS BI s blk flags hg, rfl, rfl, Or.inr rfl, ?_, ?_, h⟩
    · show s = withW s ((s.ParserBuffer.W.toNat : Nat) : Int)
      rw [hwc]
    · show s.ParserBuffer.W = s.ParserBuffer.W + ((0 : Nat) : Int)
      omega
  · have hpn : (ofGSAPs s g).parseNil =
        (ofGSAPs (withW s ((s.ParserBuffer.W.toNat + (ofGSAPs s g).blockN : Nat) : Int)) g, (ofGSAPs s g).blockN, .ok) := by
      unfold Parser.parseNil
      simp only [hn, if_false]
      rfl
    have hle : s.ParserBuffer.W.toNat + (ofGSAPs s g).blockN ≤ s.ParserBuffer.Data.len := by
      rw [hbN]; omega
    have hn0 : ¬ ((((ofGSAPs s g).blockN : Nat) : Int) = 0) := by omega
    have hsum : s.ParserBuffer.W + (((ofGSAPs s g).blockN : Nat) : Int) =
        ((s.ParserBuffer.W.toNat + (ofGSAPs s g).blockN : Nat) : Int) := by omega
    have hGo : gsap_Parse_nilable grow fuel lcp SS BI s true blk flags =
        Res.ok (withW s ((s.ParserBuffer.W.toNat + (ofGSAPs s g).blockN : Nat) : Int), blk,
          (((ofGSAPs s g).blockN : Nat) : Int), Gen.Err.ok) := by
      have hmin : Min.min s.GSAPConfig.BlockSize ((Int.ofNat s.ParserBuffer.Data.len) - s.ParserBuffer.W) =
          (((ofGSAPs s g).blockN : Nat) : Int) := by rw [← hnG, ← ite_lt_min]
      have hmin' : Min.min ((Int.ofNat s.ParserBuffer.Data.len) - s.ParserBuffer.W) s.GSAPConfig.BlockSize =
          (((ofGSAPs s g).blockN : Nat) : Int) := by rw [Int.min_comm]; exact hmin
      have hsum' : (((ofGSAPs s g).blockN : Nat) : Int) + s.ParserBuffer.W =
          ((s.ParserBuffer.W.toNat + (ofGSAPs s g).blockN : Nat) : Int) := by omega
      unfold gsap_Parse_nilable
      simp only [if_true]
      simp only [gt_iff_lt, ge_iff_le, ite_lt_min, ite_le_min, hmin, hmin']
      gs_ite
      first | rw [hsum] | rw [hsum']
    rw [hpn]
    refine ⟨_, hGo, rfl, rfl, Or.inl rfl, rfl, ?_, ?_⟩
    · show ((s.ParserBuffer.W.toNat + (ofGSAPs s g).blockN : Nat) : Int) =
        s.ParserBuffer.W + (((ofGSAPs s g).blockN : Nat) : Int)
      exact hsum.symm
    · refine ⟨⟨hD, by show (0 : Int) ≤ ((s.ParserBuffer.W.toNat + (ofGSAPs s g).blockN : Nat) : Int); omega,
          hpb.off, hpb.ss, hpb.bs⟩, h.wsa, h.wisa, h.wbits, h.cws, h.cbs, h.bs0, h.ws0, h.mm1, ?_, h.small, ?_⟩
      · show ((s.ParserBuffer.W.toNat + (ofGSAPs s g).blockN : Nat) : Int) ≤ ((s.ParserBuffer.Data.len : Nat) : Int)
        omega
      · refine saIdx_advance h.idx rfl rfl rfl ?_ (Nat.le_refl _)
        show s.ParserBuffer.W.toNat ≤ (((s.ParserBuffer.W.toNat + (ofGSAPs s g).blockN : Nat) : Int)).toNat
        omega

end LZ.GenGSAP

#print axioms LZ.GenGSAP.gen_gsap_parse_nonnil
#print axioms LZ.GenGSAP.gen_gsap_parseNil_empty
#print axioms LZ.GenGSAP.saIdx_advance
#print axioms LZ.GenGSAP.gen_gsap_parseNil
