/-
  LzProofs.GenPropsCost — osap.go: XZCost.   G05 gen_xzCost
  Part of the split of the former LzProofs/GenProps.lean: "the hand-written model equals the
  code that `tools/extract -code` regenerates from the Go source".  The generated code is
  emitted per topic (LzModel/Generated/Code<Topic>.lean); this file only imports the topic it
  talks about, so a Go function the translator refuses takes down this file and nothing else.
  Every theorem quantifies over ALL inputs; Go `int`/`int64` are unbounded `Int` on both sides
  (overflow is out of scope), `uint32`/`uint64` wrap around.  All names live in `LZ.GenProps`.
  The proofs are written against the MEANING of the generated functions (unfold, split every
  `if`, decide linear arithmetic), not against the shape of the generated term, so that
  behaviour-preserving rewrites of the Go source (De Morgan, swapped arms, reordered defaults,
  `x+x` for `2*x`, …) do not break them.
-/
import LzModel.Generated.CodeCost
import LzModel.Basic
import LzModel.Sap

set_option linter.unusedSimpArgs false

namespace LZ.GenProps
open LZ

/-! ## osap.go: XZCost -/

theorem toNat_ofInt_small (n : Nat) (h : n < 2 ^ 64) : (UInt64.ofInt (Int.ofNat n)).toNat = n := by
  unfold UInt64.ofInt
  simp only [UInt64.toNat_ofNat', Int.ofNat_eq_natCast, Nat.reducePow, Int.reducePow] at *
  omega

theorem bitsLen32_eq (d : UInt32) (h : d.toNat ≠ 0) :
    Gen.bitsLen32 d = Int.ofNat (Nat.log2 d.toNat + 1) ∧ Nat.log2 d.toNat + 1 ≤ 32 := by
  unfold Gen.bitsLen32
  have hd : d ≠ 0 := by intro e; apply h; rw [e]; rfl
  have hl : Nat.log2 d.toNat < 32 := (Nat.log2_lt h).mpr (UInt32.toNat_lt d)
  simp only [hd, if_false, true_and]
  omega

/-- G05 for ALL `m o : uint32` — the model's `(m + 2^32 - 2) % 2^32` is exactly the
    wrap-around of `m -= 2`, so no precondition `2 ≤ m` is needed -/
theorem gen_xzCost (m o : UInt32) : (Gen.XZCost m o).toNat = xzCost m.toNat o.toNat := by
  unfold Gen.XZCost xzCost
  have hm := UInt32.toNat_lt m
  have ho := UInt32.toNat_lt o
  by_cases h0 : o = 0
  · subst h0
    simp only [if_true, UInt32.toNat_zero, UInt64.toNat_mul, UInt64.toNat_add, UInt32.toNat_toUInt64,
      UInt64.toNat_ofNat, Nat.reducePow, Nat.reduceMod] at *
    omega
  · have ho0 : o.toNat ≠ 0 := by intro e; apply h0; apply UInt32.toNat_inj.mp; rw [e]; rfl
    have hm2 : (m - 2).toNat = (m.toNat + 4294967296 - 2) % 4294967296 := by
      rw [UInt32.toNat_sub]; simp only [UInt32.toNat_ofNat, Nat.reducePow, Nat.reduceMod]; omega
    have hd : (o - 1).toNat = o.toNat - 1 := by
      rw [UInt32.toNat_sub]; simp only [UInt32.toNat_ofNat, Nat.reducePow, Nat.reduceMod] at *; omega
    simp only [h0, ho0, if_false, UInt32.lt_iff_toNat_lt, hm2, hd, UInt32.toNat_ofNat, Nat.reducePow, Nat.reduceMod]
    generalize (m.toNat + 4294967296 - 2) % 4294967296 = m2
    by_cases hd4 : o.toNat - 1 < 4
    · simp only [hd4, if_true]
      repeat' split
      all_goals rfl
    · have hdn : (o - 1).toNat ≠ 0 := by omega
      obtain ⟨hb, hl⟩ := bitsLen32_eq (o - 1) hdn
      rw [hd] at hb hl
      simp only [hd4, if_false, hb]
      have hof := toNat_ofInt_small ((o.toNat - 1).log2 + 1) (by omega)
      generalize UInt64.ofInt (Int.ofNat ((o.toNat - 1).log2 + 1)) = w at hof
      generalize (o.toNat - 1).log2 = lg at *
      repeat' split
      all_goals simp only [UInt64.toNat_add, UInt64.toNat_ofNat, hof, Nat.reducePow, Nat.reduceMod]
      all_goals omega

end LZ.GenProps
