import LzModel.Driver
open LZ.Driver

partial def loop (h : IO.FS.Stream) (out : IO.FS.Stream) (st : St) : IO Unit := do
  let line ← h.getLine
  if line.isEmpty then return ()
  let l := line.dropRightWhile (fun c => c = '\n' || c = '\r')
  let (st', o) := step st l
  out.putStrLn o
  loop h out st'

def main : IO Unit := do
  let stdin ← IO.getStdin
  let stdout ← IO.getStdout
  loop stdin stdout {}
