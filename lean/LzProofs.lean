import LzProofs.FactsProps
import LzProofs.ConfigProps
import LzProofs.SuffixProps
import LzProofs.DecBufProps
