import LzProofs.FactsProps
import LzProofs.ConfigProps
