/-
  LzModel.Loop — the greedy parse loop shared by HP, BHP, DHP, BDHP, BUP and GSAP:
  scan positions left to right, ask the parser's match finder, emit a sequence for
  every match, finally handle the trailing literals.

  A `Finder` is the parser-specific part.  `probe d p i li` inspects position `i` of the
  block prefix `p` (`li` = first byte not yet covered) and returns the new dictionary
  state — including all re-indexing the Go loop performs after a match — and
  optionally a match `(start, len, offset)`.
-/
import LzModel.Basic
namespace LZ

structure LoopSt (δ : Type) where
  dict : δ
  i : Nat
  litIndex : Nat
  seqs : List Seq
  lits : List Byte

structure Finder (δ : Type) where
  probe : δ → List Byte → Nat → Nat → δ × Option (Nat × Nat × Nat)

def greedyLoop {δ} (F : Finder δ) (p : List Byte) (stop : Nat) (st : LoopSt δ) : LoopSt δ :=
  if h : st.i < stop then
    match hp : F.probe st.dict p st.i st.litIndex with
    | (d, none) => greedyLoop F p stop { st with dict := d, i := st.i + 1 }
    | (d, some (s, k, o)) =>
      if hk : s + k > st.i then
        let q := (p.drop st.litIndex).take (s - st.litIndex)
        greedyLoop F p stop
          { dict := d, i := s + k, litIndex := s + k,
            seqs := st.seqs ++ [{ litLen := q.length, matchLen := k, offset := o }],
            lits := st.lits ++ q }
      else { st with dict := d, i := stop }   -- unreachable under the probe contract
  else st
termination_by stop - st.i
decreasing_by all_goals simp_wf; all_goals omega

/-- the end of every `Parse`: trailing literals, `NoTrailingLiterals`; returns new `W` and block -/
def finishBlock {δ} (p : List Byte) (flags : Nat) (st : LoopSt δ) : Nat × Block :=
  if flags % 2 = 1 ∧ st.seqs ≠ [] then
    (st.litIndex, { seqs := st.seqs, lits := st.lits })
  else
    (p.length, { seqs := st.seqs, lits := st.lits ++ p.drop st.litIndex })

end LZ
