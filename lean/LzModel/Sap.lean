/-
  LzModel.Sap — the suffix-array parsers.
  * GSAP (gsap.go): suffix array + inverse over the whole buffer, a set of ranks already
    seen (`bits`, modelled as a Boolean array over ranks with predecessor/successor
    search; the word layout of bitset.go is tied separately by the U-correspondence),
    the greedy probe with the rank neighbours.
  * OSAP (osap.go): `computeEdges` through `suffix.Sort/LCP/Segments`, `shortestPath`
    (the DP with its tie-breaking) and the conversion of the path into sequences.
-/
import LzModel.Loop
import LzModel.Suffix
namespace LZ

/-! ## GSAP -/

structure GsapD where
  sa : Array Nat
  isa : Array Nat
  bits : Array Bool
deriving Repr, Inhabited

def GsapD.empty : GsapD := { sa := #[], isa := #[], bits := #[] }

/-- largest member `< j` -/
def memberBefore (bits : Array Bool) : Nat → Option Nat
  | 0 => none
  | j+1 => if bits.getD j false then some j else memberBefore bits j

/-- smallest member `≥ j`, searching `fuel` ranks -/
def memberFrom (bits : Array Bool) : Nat → Nat → Option Nat
  | 0, _ => none
  | fuel+1, j => if bits.getD j false then some j else memberFrom bits fuel (j+1)

/-- smallest member `> j` -/
def memberAfter (bits : Array Bool) (j : Nat) : Option Nat :=
  memberFrom bits (bits.size - (j+1)) (j+1)

def insertRanks (isa : Array Nat) (bits : Array Bool) (a : Nat) : Nat → Array Bool
  | 0 => bits
  | n+1 => insertRanks isa (bits.setIfInBounds (isa.getD a 0) true) (a+1) n

/-- `gsap.sort()` on the buffer `data` with window head `w` -/
def gsapSort (data : List Byte) (w : Nat) : GsapD :=
  let sa := (saSpec data).toArray
  let isa := invertSA sa
  { sa := sa, isa := isa, bits := insertRanks isa (Array.replicate sa.size false) 0 w }

def gsapProbe (ws minMatch : Nat)
    (g : GsapD) (p : List Byte) (i _li : Nat) : GsapD × Option (Nat × Nat × Nat) :=
  let j := g.isa.getD i 0
  let bits := g.bits.setIfInBounds j true
  let g1 := { g with bits := bits }
  let (f, m) := match memberBefore bits j with
    | some k1 => let f := g.sa.getD k1 0; (f, lcpLen (p.drop f) (p.drop i))
    | none => (0, 0)
  let (f, m) := match memberAfter bits j with
    | some k2 =>
      let f2 := g.sa.getD k2 0
      let m2 := lcpLen (p.drop f2) (p.drop i)
      if m2 > m ∨ (m2 = m ∧ f2 > f) then (f2, m2) else (f, m)
    | none => (f, m)
  if m < minMatch then (g1, none)
  else if ¬ (f < i ∧ i - f < ws) then (g1, none)
  else
    ({ g1 with bits := insertRanks g.isa bits (i + 1) (m - 1) }, some (i, m, i - f))

/-! ## OSAP -/

/-- `XZCost(m, o)`; `m -= 2` is uint32 arithmetic -/
def xzCost (m o : Nat) : Nat :=
  if o = 0 then 9 * m
  else
    let m2 := (m + 4294967296 - 2) % 4294967296
    let c := if m2 < 8 then 4 else if m2 < 16 then 5 else 10
    let d := o - 1
    if d < 4 then c + 4 else c + 2 + (Nat.log2 d + 1)

abbrev Edge := Nat × Nat   -- (m, o)

structure OsapD where
  edges : Array (List Edge)
  start : Nat
  nEdges : Nat
deriving Repr, Inhabited

def OsapD.empty : OsapD := { edges := #[], start := 0, nEdges := 0 }

/-- the callback `f(m, seg)` of `computeEdges`, over the sorted segment walked from the
    top: `desc` is the sorted segment in descending order -/
def edgeCallback (ws : Nat) (w : Int) (m : Nat) :
    List Nat → Array (List Edge) × Nat → Array (List Edge) × Nat
  | i :: prev :: rest, (edges, cnt) =>
    let k : Int := (i : Int) + w
    if k < 0 then (edges, cnt)          -- break
    else
      let o := i - prev
      let cur := edges.getD k.toNat []
      let skip : Bool := decide (o > ws) || (match cur.getLast? with | some e => decide (e.2 ≤ o) | none => false)
      if skip then edgeCallback ws w m (prev :: rest) (edges, cnt)
      else edgeCallback ws w m (prev :: rest) (edges.setIfInBounds k.toNat (cur ++ [(m, o)]), cnt + 1)
  | _, acc => acc

/-- `computeEdges()` on buffer `data` with window head `w` -/
def computeEdges (data : List Byte) (w ws minMatch maxMatch : Nat) : OsapD :=
  let k := data.length - w
  let edges0 : Array (List Edge) := Array.replicate k []
  if data.length = 0 then { edges := edges0, start := w, nEdges := 0 }
  else
    let winStart := w - ws
    let t := data.drop winStart
    let saL := saSpec t
    let sa := saL.toArray
    let lcp := lcpKasai t sa (invertSA sa)
    let maxLen := min (lcp.foldl max 0) maxMatch
    let woff : Int := (winStart : Int) - (w : Int)
    match segments32 sa.size lcp (minMatch : Int) (maxLen : Int) with
    | none => { edges := edges0, start := w, nEdges := 0 }   -- unreachable in Go (see `segments32`)
    | some cbs =>
      let (edges, cnt) := cbs.foldl (fun acc cb =>
          let (m, lo, hi) := cb
          let seg := ((saL.drop lo).take (hi - lo)).mergeSort (fun a b => decide (a ≤ b))
          edgeCallback ws woff m seg.reverse acc) (edges0, 0)
      { edges := edges, start := w, nEdges := cnt }

structure Opt where
  m : Nat
  o : Nat
  c : Nat
deriving Repr, Inhabited

/-- relax all match edges `(mx, o)` of position `i` for `m = minMatch … min mx maxLen` -/
def relaxLens (minMatch i ci o : Nat) : Nat → Nat → Array Opt → Array Opt
  | 0, _, d => d
  | cnt+1, m, d =>
    let c := ci + xzCost m o
    let j := i + m
    let d' := if c < (d.getD j default).c then d.setIfInBounds j ⟨m, o, c⟩ else d
    relaxLens minMatch i ci o cnt (m+1) d'

def relaxEdges (minMatch i ci maxLen : Nat) : List Edge → Array Opt → Array Opt
  | [], d => d
  | (mx, o) :: rest, d =>
    let mx' := min mx maxLen
    relaxEdges minMatch i ci maxLen rest (relaxLens minMatch i ci o (mx' + 1 - minMatch) minMatch d)

/-- the forward pass of `shortestPath` over positions `i = 0 … n-1` -/
def dpLoop (minMatch n : Nat) (edges : Array (List Edge)) (k0 : Nat) : Nat → Nat → Array Opt → Array Opt
  | 0, _, d => d
  | fuel+1, i, d =>
    let d := if i > 0 then
        let c := (d.getD (i-1) default).c + xzCost 1 0
        if c < (d.getD i default).c then d.setIfInBounds i ⟨1, 0, c⟩ else d
      else d
    let ci := (d.getD i default).c
    -- `for k := len(q)-1; k >= 0; k--`
    let d := relaxEdges minMatch i ci (n - i) (edges.getD (k0 + i) []).reverse d
    dpLoop minMatch n edges k0 fuel (i+1) d

/-- back-tracking of `shortestPath`; result is the path in *forward* order -/
def backtrack (d : Array Opt) : Nat → Nat → List Edge → List Edge
  | 0, _, acc => acc
  | fuel+1, i, acc =>
    if i = 0 then acc
    else
      let e := d.getD i default
      backtrack d fuel (i - e.m) ((e.m, e.o) :: acc)

def shortestPath (minMatch n : Nat) (edges : Array (List Edge)) (k0 : Nat) : List Edge :=
  let d0 : Array Opt := (Array.range (n+1)).map fun i => if i = 0 then ⟨0, 0, 0⟩ else ⟨1, 0, xzCost i 0⟩
  let d := dpLoop minMatch n edges k0 n 0 d0
  let d := if n > 0 then
      let c := (d.getD (n-1) default).c + xzCost 1 0
      if c < (d.getD n default).c then d.setIfInBounds n ⟨1, 0, c⟩ else d
    else d
  backtrack d n n []

/-- turn the path (forward order) into sequences; returns (seqs, lits, i, litIndex) -/
def pathToSeqs (p : List Byte) : List Edge → Nat → Nat → List Seq → List Byte → List Seq × List Byte × Nat × Nat
  | [], i, li, seqs, lits => (seqs, lits, i, li)
  | (m, o) :: rest, i, li, seqs, lits =>
    if o = 0 then pathToSeqs p rest (i + m) li seqs lits
    else
      let q := (p.drop li).take (i - li)
      pathToSeqs p rest (i + m) (i + m)
        (seqs ++ [{ litLen := q.length, matchLen := m, offset := o }]) (lits ++ q)

end LZ
