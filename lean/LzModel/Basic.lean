/-
  LzModel.Basic — values shared by all models: bytes, sequences, blocks, the reference
  LZ77 expander and the byte-level comparison functions.

  Core Lean only (no Mathlib): everything in LzModel is also compiled into `lzdriver`.
-/
namespace LZ

abbrev Byte := UInt8

/-- An LZ77 sequence: `litLen` literal bytes followed by a match. -/
structure Seq where
  litLen : Nat
  matchLen : Nat
  offset : Nat
  aux : Nat := 0
deriving Repr, DecidableEq, Inhabited

structure Block where
  seqs : List Seq
  lits : List Byte
deriving Repr, DecidableEq, Inhabited

/-- Canonical error values of the line protocol (and of the models). -/
inductive Err where
  | ok | empty | full | eof | outOfBuffer | endOfBuffer
  | litLen | matchLen | offset | oversize | shortWrite
  | reader (code : Nat) | writer (code : Nat)
  | cfg            -- configuration rejected
  | panic          -- the Go code would panic here (index / slice bounds / explicit panic)
deriving Repr, DecidableEq, Inhabited

def Err.toString : Err → String
  | .ok => "ok" | .empty => "empty" | .full => "full" | .eof => "eof"
  | .outOfBuffer => "outOfBuffer" | .endOfBuffer => "endOfBuffer"
  | .litLen => "litLen" | .matchLen => "matchLen" | .offset => "offset"
  | .oversize => "oversize" | .shortWrite => "shortWrite"
  | .reader c => s!"reader({c})" | .writer c => s!"writer({c})"
  | .cfg => "cfg" | .panic => "panic"

instance : ToString Err := ⟨Err.toString⟩

/-! ## Reference LZ77 expansion (the specification every round-trip theorem refers to) -/

/-- copy `m` bytes from `o` bytes back, one byte at a time; `none` if the source is out of range -/
def copyRef (out : List Byte) (o : Nat) : Nat → Option (List Byte)
  | 0 => some out
  | m+1 =>
    if h : 0 < o ∧ o ≤ out.length then
      copyRef (out ++ [out[out.length - o]'(by omega)]) o m
    else none

/-- expand the sequences over the output so far; returns output and unused literals -/
def expandSeqs (out : List Byte) (lits : List Byte) : List Seq → Option (List Byte × List Byte)
  | [] => some (out, lits)
  | s :: ss =>
    if s.litLen ≤ lits.length then
      match copyRef (out ++ lits.take s.litLen) s.offset s.matchLen with
      | some out' => expandSeqs out' (lits.drop s.litLen) ss
      | none => none
    else none

/-- plain LZ77 expander of a block on top of the history `hist` -/
def expand (hist : List Byte) (b : Block) : Option (List Byte) :=
  match expandSeqs hist b.lits b.seqs with
  | some (out, rest) => some (out ++ rest)
  | none => none

/-- number of stream bytes a block represents (`Block.Len`) -/
def Block.len (b : Block) : Nat := b.lits.length + (b.seqs.map (·.matchLen)).sum

/-- a match at position `i` of length `k` with offset `o` is genuine in `p` -/
def MatchOK (p : List Byte) (i k o : Nat) : Prop :=
  0 < o ∧ o ≤ i ∧ i + k ≤ p.length ∧ ∀ t, t < k → p[i + t]? = p[i + t - o]?

/-! ## byte comparison (specification level of `lcp`, `lcs`, `matchLen`) -/

/-- length of the longest common prefix -/
def lcpLen : List Byte → List Byte → Nat
  | a :: as, b :: bs => if a = b then lcpLen as bs + 1 else 0
  | _, _ => 0

/-- length of the longest common suffix -/
def lcsLen (a b : List Byte) : Nat := lcpLen a.reverse b.reverse

/-- little-endian load of up to 8 bytes at position `i`; bytes behind the end read as 0
    (the model has no representation of memory behind `len`). -/
def le64At (p : List Byte) (i : Nat) : UInt64 :=
  let q := (p.drop i).take 8
  (q.foldr (fun b acc => (acc <<< 8) ||| b.toUInt64) 0)

def min3 (a b c : Nat) : Nat := min a (min b c)

end LZ
