/-
  LzModel.Json — the JSON side of the configurations (lz.go: `marshalJSON`,
  `unmarshalJSON`, `ParseJSON`) at the level of JSON *values*: `encoding/json` itself
  (lexing, escaping, number syntax) is trusted and exercised by the correspondence; the
  model describes what the module does with the decoded document: the union record,
  `omitempty`, case-insensitive key matching, last duplicate wins, type checks on every
  union field, the `Type` dispatch and the copy by field name.
-/
import LzModel.Config
namespace LZ

/-- a member value of the top-level JSON object, as far as `encoding/json` distinguishes it
    when decoding into an `int` or `string` field -/
inductive JField where
  | null
  | bool (b : Bool)
  | int (i : Int)          -- integer literal that fits into int64
  | badnum                 -- any other number (fraction, exponent, out of range)
  | str (s : String)
  | composite              -- array or object
deriving Repr, DecidableEq, Inhabited

/-- a JSON document -/
inductive JDoc where
  | invalid                -- not JSON at all
  | null
  | nonObject              -- array, number, string, bool at top level
  | obj (fields : List (String × JField))
deriving Repr, Inhabited

def asciiLower (s : String) : String := s.map fun c => if 'A' ≤ c ∧ c ≤ 'Z' then Char.ofNat (c.toNat + 32) else c

/-- the fields of `parserConfigUnion` in declaration order with their Go type (`true` = string) -/
def unionFields : List (String × Bool) :=
  [("Type", true), ("ShrinkSize", false), ("BufferSize", false), ("WindowSize", false),
   ("BlockSize", false), ("InputLen", false), ("HashBits", false), ("InputLen1", false),
   ("HashBits1", false), ("InputLen2", false), ("HashBits2", false), ("MinMatchLen", false),
   ("MaxMatchLen", false), ("BucketSize", false), ("Cost", true)]

def Cfg.getInt (c : Cfg) : String → Int
  | "ShrinkSize" => c.shrinkSize | "BufferSize" => c.bufferSize | "WindowSize" => c.windowSize
  | "BlockSize" => c.blockSize | "InputLen" => c.inputLen | "HashBits" => c.hashBits
  | "InputLen1" => c.inputLen1 | "HashBits1" => c.hashBits1 | "InputLen2" => c.inputLen2
  | "HashBits2" => c.hashBits2 | "MinMatchLen" => c.minMatchLen | "MaxMatchLen" => c.maxMatchLen
  | "BucketSize" => c.bucketSize | _ => 0

def Cfg.setInt (c : Cfg) (f : String) (v : Int) : Cfg :=
  match f with
  | "ShrinkSize" => { c with shrinkSize := v } | "BufferSize" => { c with bufferSize := v }
  | "WindowSize" => { c with windowSize := v } | "BlockSize" => { c with blockSize := v }
  | "InputLen" => { c with inputLen := v } | "HashBits" => { c with hashBits := v }
  | "InputLen1" => { c with inputLen1 := v } | "HashBits1" => { c with hashBits1 := v }
  | "InputLen2" => { c with inputLen2 := v } | "HashBits2" => { c with hashBits2 := v }
  | "MinMatchLen" => { c with minMatchLen := v } | "MaxMatchLen" => { c with maxMatchLen := v }
  | "BucketSize" => { c with bucketSize := v } | _ => c

/-- `marshalJSON(cfg, typ)`: the union record with `omitempty`, in declaration order.
    `c` must already be restricted to the fields of `k`. -/
def marshalCfg (k : Kind) (c : Cfg) : List (String × JField) :=
  ("Type", JField.str k.name) ::
    (unionFields.tail.filterMap fun (f, isStr) =>
      if isStr then (if c.cost = "" then none else some (f, JField.str c.cost))
      else (if c.getInt f = 0 then none else some (f, JField.int (c.getInt f))))

/-- decoding state of `json.Unmarshal(p, &parserConfigUnion)`: type, fields, error seen -/
structure UState where
  typ : String := ""
  cfg : Cfg := {}
  err : Bool := false

/-- one object member; keys match a union field case-insensitively, unknown keys are ignored;
    `null` leaves the field untouched; a value of the wrong JSON type records an error -/
def unmarshalMember (u : UState) (key : String) (v : JField) : UState :=
  match unionFields.find? (fun f => asciiLower f.1 = asciiLower key) with
  | none => u
  | some (f, isStr) =>
    match v with
    | .null => u
    | .str s =>
      if isStr then (if f = "Type" then { u with typ := s } else { u with cfg := { u.cfg with cost := s } })
      else { u with err := true }
    | .int i => if isStr then { u with err := true } else { u with cfg := u.cfg.setInt f i }
    | _ => { u with err := true }

def unmarshalUnion (fields : List (String × JField)) : Option (String × Cfg) :=
  let u := fields.foldl (fun u kv => unmarshalMember u kv.1 kv.2) {}
  if u.err then none else some (u.typ, u.cfg)

/-- `json.Unmarshal(p, &struct{Type string})` -/
def unmarshalType (fields : List (String × JField)) : Option String :=
  let r := fields.foldl (fun (acc : String × Bool) kv =>
    if asciiLower kv.1 = "type" then
      match kv.2 with
      | .null => acc
      | .str s => (s, acc.2)
      | _ => (acc.1, true)
    else acc) ("", false)
  if r.2 then none else some r.1

/-- `ParseJSON(p)` -/
def parseJSON (d : JDoc) : Option (Kind × Cfg) :=
  match d with
  | .invalid | .nonObject => none
  | .null => none                       -- Type "" is an unknown parser name
  | .obj fields =>
    match unmarshalType fields with
    | none => none
    | some t =>
      match Kind.ofName? t with
      | none => none
      | some k =>
        match unmarshalUnion fields with
        | none => none
        | some (t', c) => if t' ≠ k.name then none else some (k, c.restrict k)

/-- `cfg.UnmarshalJSON(p)` for a fixed configuration type -/
def unmarshalAs (k : Kind) (d : JDoc) : Option Cfg :=
  match d with
  | .invalid | .nonObject => none
  | .null => none                       -- Type "" ≠ typ
  | .obj fields =>
    match unmarshalUnion fields with
    | none => none
    | some (t', c) => if t' ≠ k.name then none else some (c.restrict k)

namespace Json

def hexStr (s : String) : String :=
  let bs := s.toUTF8.toList
  if bs.isEmpty then "-" else String.mk (bs.foldr (fun b acc =>
    let h (n : Nat) : Char := if n < 10 then Char.ofNat (48 + n) else Char.ofNat (87 + n)
    h (b.toNat / 16) :: h (b.toNat % 16) :: acc) [])

def renderField : JField → String
  | .null => "n" | .bool true => "t" | .bool false => "f" | .int i => s!"i{i}"
  | .badnum => "x" | .str s => s!"s{hexStr s}" | .composite => "c"

/-- canonical rendering of an object: `key=value;…` in document order -/
def render (fields : List (String × JField)) : String :=
  ";".intercalate (fields.map fun (k, v) => s!"{k}={renderField v}")

def hexDigit (c : Char) : Nat :=
  if '0' ≤ c ∧ c ≤ '9' then c.toNat - 48 else if 'a' ≤ c ∧ c ≤ 'f' then c.toNat - 87 else 0

def unhexBytes : List Char → List UInt8
  | a :: b :: rest => UInt8.ofNat (hexDigit a * 16 + hexDigit b) :: unhexBytes rest
  | _ => []

def unhexStr (s : String) : String :=
  if s = "-" then "" else
  match String.fromUTF8? (ByteArray.mk (unhexBytes s.toList).toArray) with
  | some t => t
  | none => ""

/-- How `encoding/json` (go1.23 `foldName`) matches an object key against a field name: by
    simple Unicode case folding.  Besides the ASCII letters (handled by `asciiLower` in
    `unmarshalMember`) only two runes fold to an ASCII letter: U+017F LATIN SMALL LETTER LONG S
    (to `s`) and U+212A KELVIN SIGN (to `k`).  The keys of a `JDoc` are the keys after this
    replacement; it is part of the rendering of the standard library's decoder. -/
def foldKey (s : String) : String :=
  s.map fun c => if c = Char.ofNat 0x17F then 's' else if c = Char.ofNat 0x212A then 'k' else c

def parseField (s : String) : JField :=
  match s.toList with
  | 'n' :: _ => .null | 't' :: _ => .bool true | 'f' :: _ => .bool false
  | 'i' :: r => match (String.mk r).toInt? with | some i => .int i | none => .badnum
  | 'x' :: _ => .badnum
  | 's' :: r => .str (unhexStr (String.mk r))
  | _ => .composite

/-- the document syntax of the protocol: `Z` invalid, `N` null, `T` non-object,
    `O` empty object, `O:<hexkey>=<field>;…` -/
def parseDoc (s : String) : Option JDoc :=
  if s = "Z" then some .invalid
  else if s = "N" then some .null
  else if s = "T" then some .nonObject
  else if s = "O" then some (.obj [])
  else if s.startsWith "O:" then
    let body := (s.drop 2).toString
    some (.obj ((body.splitOn ";").filterMap fun kv =>
      match kv.splitOn "=" with
      | [k, v] => some (foldKey (unhexStr k), parseField v)
      | _ => none))
  else none

end Json
end LZ
