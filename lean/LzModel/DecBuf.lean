/-
  LzModel.DecBuf — `DecoderBuffer` and `Decoder` (decoder_buffer.go).

  State: Data, R, Off, WindowSize, BufferSize and cap(Data).  The Go runtime's slice
  growth is a parameter `grow : oldCap → newLen → newCap` (`Grow`); the driver
  instantiates it with the transcription of `nextslicecap`+size classes, every theorem
  holds for all growth functions with `newLen ≤ grow oldCap newLen`.

  `Decoder` adds a scripted `io.Writer`.  Its retry loops are total functions: an
  iteration that neither consumes input nor flushes a byte — the situation in which the Go
  loop would spin forever — yields `Err.panic`-free marker `hang` (`DErr.hang`); theorem
  C06 states that this branch is unreachable.
-/
import LzModel.Basic
import LzModel.Generated.Facts
namespace LZ

abbrev Grow := Nat → Nat → Nat

structure DecBuf where
  data : List Byte
  r : Nat
  off : Nat
  ws : Nat
  bs : Nat
  cap : Nat
deriving Repr, Inhabited

/-- `DecoderConfig.SetDefaults` + `Verify` on Go ints -/
def decCfg (ws bs : Int) : Option (Nat × Nat) :=
  let ws := if ws = 0 then Facts.decDefWindowSize else ws
  let bs := if bs = 0 then Facts.decBufFactor * ws else bs
  if (1 ≤ bs ∧ bs ≤ Facts.maxUint32) ∧ (0 ≤ ws ∧ ws < bs) then some (ws.toNat, bs.toNat) else none

namespace DecBuf

/-- `Init(cfg)` on a value whose `Data` has capacity `precap` -/
def init (ws bs : Int) (precap : Nat) : Option DecBuf :=
  match decCfg ws bs with
  | none => none
  | some (w, b) => some { data := [], r := 0, off := 0, ws := w, bs := if precap > b then precap else b, cap := precap }

def reset (b : DecBuf) : DecBuf :=
  { b with data := [], r := 0, off := 0, bs := if b.cap > b.bs then b.cap else b.bs }

/-- `append(b.Data, p...)` -/
def append (g : Grow) (b : DecBuf) (p : List Byte) : DecBuf :=
  let n := b.data.length + p.length
  { b with data := b.data ++ p, cap := if n ≤ b.cap then b.cap else g b.cap n }

def byteAtEnd (b : DecBuf) (off : Int) : Byte :=
  let i : Int := (b.data.length : Int) - off
  if 0 ≤ i ∧ i < (b.data.length : Int) then (b.data[i.toNat]?).getD 0 else 0

/-- `Read(p)` with `len(p) = n` -/
def read (b : DecBuf) (n : Nat) : DecBuf × List Byte :=
  let q := (b.data.drop b.r).take n
  ({ b with r := b.r + q.length }, q)

/-- `shrink(g)` → (buffer, delta) -/
def shrink (b : DecBuf) (g : Nat) : DecBuf × Nat :=
  let raised := b.bs < b.cap
  let b := if raised then { b with bs := b.cap } else b
  if raised ∧ g ≤ b.bs then (b, 0)
  else
    let delta := min (b.data.length - b.ws) b.r
    if delta = 0 then (b, 0)
    else ({ b with data := b.data.drop delta, r := b.r - delta }, delta)

def writeByte (g : Grow) (b : DecBuf) (c : Byte) : DecBuf × Err :=
  let need := b.data.length + 1
  let (b, need) := if need > b.bs then
      let (b', d) := b.shrink need
      (b', need - d)
    else (b, need)
  if need > b.bs then (b, .full)
  else ({ (b.append g [c]) with off := b.off + 1 }, .ok)

def write (g : Grow) (b : DecBuf) (p : List Byte) : DecBuf × Nat × Err :=
  let need := b.data.length + p.length
  let (b, need) := if need > b.bs then
      let (b', d) := b.shrink need
      (b', need - d)
    else (b, need)
  if need > b.bs then (b, 0, .full)
  else ({ (b.append g p) with off := b.off + p.length }, p.length, .ok)

/-- the doubling copy loop shared by `WriteMatch` and `WriteBlock` (`n` bytes from `off` back) -/
def copyLoop (g : Grow) (b : DecBuf) (n off : Nat) : DecBuf × Nat × Nat :=
  if h : n > off ∧ off > 0 then
    let b' := b.append g (b.data.drop (b.data.length - off))
    let n' := n - off
    if n' ≤ off then (b', n', off) else copyLoop g b' n' (off * 2)
  else (b, n, off)
termination_by n
decreasing_by omega

/-- the complete match copy: loop, then `append(Data, Data[j:j+n]...)` with `j = len - off` -/
def copyMatch (g : Grow) (b : DecBuf) (m o : Nat) : DecBuf :=
  let (b', n, off) := copyLoop g b m o
  let j := b'.data.length - off
  b'.append g ((b'.data.drop j).take n)

/-- `WriteMatch(m, o)` -/
def writeMatch (g : Grow) (b : DecBuf) (m o : Nat) : DecBuf × Nat × Err :=
  if o = 0 ∧ m > 0 then (b, 0, .offset)
  else if o > min b.data.length b.ws then (b, 0, .offset)
  else
    let (b, fits) :=
      if m > b.bs - b.data.length then
        let (b', _) := b.shrink (m + b.data.length)
        (b', decide (m ≤ b'.bs - b'.data.length))
      else (b, true)
    if ¬ fits then
      if m > b.bs - b.ws then (b, 0, .matchLen) else (b, 0, .full)
    else
      ({ (copyMatch g b m o) with off := b.off + m }, m, .ok)

/-- the sequence loop of `WriteBlock`: returns buffer, sequences consumed, remaining
    literals, accumulated shrink deltas, and the error that stopped it -/
def seqLoop (g : Grow) : DecBuf → List Seq → List Byte → Nat → Nat → DecBuf × Nat × List Byte × Nat × Err
  | b, [], lits, k, dl => (b, k, lits, dl, .ok)
  | b, s :: rest, lits, k, dl =>
    if s.litLen > lits.length then (b, k, lits, dl, .litLen)
    else if s.offset = 0 ∧ s.matchLen > 0 then (b, k, lits, dl, .offset)
    else if s.offset > min (b.data.length + s.litLen) b.ws then (b, k, lits, dl, .offset)
    else
      let need := s.litLen + s.matchLen
      let (b, fits, d) :=
        if need > b.bs - b.data.length then
          let (b', d) := b.shrink (need + b.data.length)
          (b', decide (need ≤ b'.bs - b'.data.length), d)
        else (b, true, 0)
      if ¬ fits then
        (b, k, lits, dl + d, if need > b.bs - b.ws then .matchLen else .full)
      else
        let b1 := b.append g (lits.take s.litLen)
        let b2 := copyMatch g b1 s.matchLen s.offset
        seqLoop g b2 rest (lits.drop s.litLen) (k + 1) (dl + d)

/-- `WriteBlock(blk)` → (buffer, n, k, l, err).  `n` is a Go int: `len(Data) - ld` with
    `ld` corrected by the shrink deltas. -/
def writeBlock (g : Grow) (b : DecBuf) (blk : Block) : DecBuf × Int × Nat × Nat × Err :=
  let ld := b.data.length
  let ll := blk.lits.length
  let (b1, k, lits, dl, e) := seqLoop g b blk.seqs blk.lits 0 0
  let fin (b : DecBuf) (lits : List Byte) (dl : Nat) (e : Err) : DecBuf × Int × Nat × Nat × Err :=
    let n : Int := (b.data.length : Int) - ((ld : Int) - (dl : Int))
    ({ b with off := (b.off + n).toNat }, n, k, ll - lits.length, e)
  if e ≠ .ok then fin b1 lits dl e
  else
    let need := b1.data.length + lits.length
    let (b2, need, d) := if need > b1.bs then
        let (b', d) := b1.shrink need
        (b', need - d, d)
      else (b1, need, 0)
    if need > b2.bs then fin b2 lits (dl + d) .full
    else fin (b2.append g lits) [] (dl + d) .ok

end DecBuf

/-! ## scripted writer and `Decoder` -/

/-- scripted `io.Writer`: responses `(max, errcode)`; once exhausted it accepts everything -/
structure Writer where
  resps : List (Nat × Nat)
  got : List Byte           -- everything accepted so far
deriving Repr, Inhabited

def Writer.write (w : Writer) (p : List Byte) : Writer × Nat × Err :=
  match w.resps with
  | [] => ({ w with got := w.got ++ p }, p.length, .ok)
  | (mx, e) :: rest =>
    let k := min mx p.length
    ({ resps := rest, got := w.got ++ p.take k }, k, if e = 0 then .ok else .writer e)

structure Decoder where
  buf : DecBuf
  w : Writer
deriving Repr, Inhabited

/-- result marker for "the Go loop would spin forever" -/
def hangErr : Err := .reader 999999

namespace Decoder

/-- `DecoderBuffer.WriteTo(w)` -/
def writeTo (d : Decoder) : Decoder × Nat × Err :=
  let p := d.buf.data.drop d.buf.r
  let (w', k, e) := d.w.write p
  let e := if e = .ok ∧ k < p.length then Err.shortWrite else e
  ({ buf := { d.buf with r := d.buf.r + k }, w := w' }, k, e)

def flush (d : Decoder) : Decoder × Err :=
  let (d', _, e) := d.writeTo
  (d', e)

def reset (d : Decoder) (w : Writer) : Decoder := { buf := d.buf.reset, w := w }

def unflushed (d : Decoder) : Nat := d.buf.data.length - d.buf.r

/-- `Decoder.WriteByte` -/
def writeByte (g : Grow) (d : Decoder) (c : Byte) : Decoder × Err :=
  let (b, e) := d.buf.writeByte g c
  let d1 := { d with buf := b }
  if e ≠ .full then (d1, e)
  else
    let (d2, k, e2) := d1.writeTo
    if e2 ≠ .ok then (d2, e2)
    else if h : k > 0 ∧ d2.unflushed < d.unflushed then writeByte g d2 c
    else (d2, hangErr)
termination_by d.unflushed

/-- `Decoder.Write` -/
def write (g : Grow) (d : Decoder) (p : List Byte) (acc : Nat) : Decoder × Nat × Err :=
  if hp : p.length = 0 then (d, acc, .ok)
  else
    let m := d.buf.bs - d.buf.ws
    let q := if p.length > m then p.take m else p
    let (b, k, e) := d.buf.write g q
    let d1 := { d with buf := b }
    if e = .ok then
      if hk : 0 < k ∧ k ≤ p.length then write g d1 (p.drop k) (acc + k)
      else (d1, acc + k, hangErr)         -- an empty chunk: BufferSize = WindowSize cannot happen
    else if e ≠ .full then (d1, acc + k, e)
    else
      let (d2, f, e2) := d1.writeTo
      if e2 ≠ .ok then (d2, acc + k, e2)
      else if h : f > 0 ∧ d2.unflushed < d.unflushed then write g d2 (p.drop k) (acc + k)
      else (d2, acc + k, hangErr)
termination_by (p.length, d.unflushed)
decreasing_by
  · simp only [List.length_drop]; apply Prod.Lex.left; omega
  · simp only [List.length_drop]
    by_cases hk0 : k = 0
    · subst hk0; simp only [Nat.sub_zero]; apply Prod.Lex.right; exact h.2
    · apply Prod.Lex.left; omega

/-- `Decoder.WriteBlock`; `n k l` are the accumulated results -/
def writeBlock (g : Grow) (d : Decoder) (seqs : List Seq) (lits : List Byte) (n : Int) (k l : Nat) :
    Decoder × Int × Nat × Nat × Err :=
  let (b, nn, kk, ll, e) := d.buf.writeBlock g ⟨seqs, lits⟩
  let d1 := { d with buf := b }
  let n := n + nn
  let k := k + kk
  let l := l + ll
  if e ≠ .full then (d1, n, k, l, e)
  else
    let seqs' := seqs.drop kk
    let lits' := lits.drop ll
    if hs : seqs'.length = 0 then
      -- only the trailing literals remain: written in pieces
      let (d2, m, e2) := d1.write g lits' 0
      (d2, n + m, k, l + m, e2)
    else
      let (d2, f, e2) := d1.writeTo
      if e2 ≠ .ok then (d2, n, k, l, e2)
      else if hk : kk > 0 then writeBlock g d2 seqs' lits' n k l
      else if hf : f > 0 ∧ d2.unflushed < d.unflushed then writeBlock g d2 seqs' lits' n k l
      else (d2, n, k, l, hangErr)
termination_by (seqs.length, d.unflushed)
decreasing_by
  · apply Prod.Lex.left
    simp only [seqs', List.length_drop] at hs ⊢
    omega
  · have hk0 : kk = 0 := by omega
    simp only [seqs', hk0, List.drop_zero]
    apply Prod.Lex.right; exact hf.2

end Decoder
end LZ
