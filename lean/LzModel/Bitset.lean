/-
  LzModel.Bitset — set-level model of `bitset` (bitset.go): a finite set of naturals with
  insert, clear, predecessor (`memberBefore`), successor (`memberAfter`) and `slice`.
  The word layout (`a`, `off`, capacity reuse in `support`) is not modelled; it is tied
  to this set model by the U-correspondence on long random scripts.
-/
import LzModel.Basic
namespace LZ

structure BitsetM where
  members : List Nat      -- ascending, no duplicates
deriving Repr, Inhabited

namespace BitsetM

def empty : BitsetM := ⟨[]⟩

def insertOne : List Nat → Nat → List Nat
  | [], x => [x]
  | y :: ys, x => if x < y then x :: y :: ys else if x = y then y :: ys else y :: insertOne ys x

/-- `insert(i...)`; the Go code panics for a negative argument, which the protocol cannot express -/
def insert (b : BitsetM) (l : List Nat) : Option BitsetM := some ⟨l.foldl insertOne b.members⟩

def clear (_ : BitsetM) : BitsetM := ⟨[]⟩

def memberBefore (b : BitsetM) (i : Nat) : Option Nat := (b.members.filter (· < i)).getLast?

def memberAfter (b : BitsetM) (i : Nat) : Option Nat := b.members.find? (· > i)

def slice (b : BitsetM) : List Nat := b.members

end BitsetM
end LZ
