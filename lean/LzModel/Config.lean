/-
  LzModel.Config — configurations of the seven parsers (lz.go, hash.go, bucket_hash.go,
  *p.go): `SetDefaults`, `Verify`, over Go `int` fields modelled as `Int` (negative, zero
  and huge values are inputs).  All numeric constants come from the regenerated
  `Facts`.
-/
import LzModel.Basic
import LzModel.Generated.Facts
namespace LZ

inductive Kind where
  | HP | BHP | DHP | BDHP | BUP | GSAP | OSAP
deriving Repr, DecidableEq, Inhabited

def Kind.name : Kind → String
  | .HP => "HP" | .BHP => "BHP" | .DHP => "DHP" | .BDHP => "BDHP"
  | .BUP => "BUP" | .GSAP => "GSAP" | .OSAP => "OSAP"

def Kind.ofName? : String → Option Kind
  | "HP" => some .HP | "BHP" => some .BHP | "DHP" => some .DHP | "BDHP" => some .BDHP
  | "BUP" => some .BUP | "GSAP" => some .GSAP | "OSAP" => some .OSAP
  | _ => none

def Kind.all : List Kind := [.HP, .BHP, .DHP, .BDHP, .BUP, .GSAP, .OSAP]

/-- the union of all configuration fields (`parserConfigUnion` without `Type`) -/
structure Cfg where
  shrinkSize : Int := 0
  bufferSize : Int := 0
  windowSize : Int := 0
  blockSize : Int := 0
  inputLen : Int := 0
  hashBits : Int := 0
  inputLen1 : Int := 0
  hashBits1 : Int := 0
  inputLen2 : Int := 0
  hashBits2 : Int := 0
  minMatchLen : Int := 0
  maxMatchLen : Int := 0
  bucketSize : Int := 0
  cost : String := ""
deriving Repr, DecidableEq, Inhabited

/-- which union fields a configuration type has (declaration order of the Go struct) -/
def Kind.fields : Kind → List String
  | .HP | .BHP => ["ShrinkSize", "BufferSize", "WindowSize", "BlockSize", "InputLen", "HashBits"]
  | .DHP | .BDHP => ["ShrinkSize", "BufferSize", "WindowSize", "BlockSize",
                     "InputLen1", "HashBits1", "InputLen2", "HashBits2"]
  | .BUP => ["ShrinkSize", "BufferSize", "WindowSize", "BlockSize", "InputLen", "HashBits", "BucketSize"]
  | .GSAP => ["ShrinkSize", "BufferSize", "WindowSize", "BlockSize", "MinMatchLen"]
  | .OSAP => ["ShrinkSize", "BufferSize", "WindowSize", "BlockSize", "MinMatchLen", "MaxMatchLen", "Cost"]

/-- keep only the fields the configuration type has (everything else is zero) -/
def Cfg.restrict (k : Kind) (c : Cfg) : Cfg :=
  let has (f : String) : Bool := k.fields.contains f
  { shrinkSize := c.shrinkSize, bufferSize := c.bufferSize, windowSize := c.windowSize,
    blockSize := c.blockSize,
    inputLen := if has "InputLen" then c.inputLen else 0,
    hashBits := if has "HashBits" then c.hashBits else 0,
    inputLen1 := if has "InputLen1" then c.inputLen1 else 0,
    hashBits1 := if has "HashBits1" then c.hashBits1 else 0,
    inputLen2 := if has "InputLen2" then c.inputLen2 else 0,
    hashBits2 := if has "HashBits2" then c.hashBits2 else 0,
    minMatchLen := if has "MinMatchLen" then c.minMatchLen else 0,
    maxMatchLen := if has "MaxMatchLen" then c.maxMatchLen else 0,
    bucketSize := if has "BucketSize" then c.bucketSize else 0,
    cost := if has "Cost" then c.cost else "" }

/-! ### SetDefaults -/

/-- `BufConfig.SetDefaults` -/
def bufDefaults (c : Cfg) : Cfg :=
  let ws := if c.windowSize = 0 then Facts.defWindowSize else c.windowSize
  let bs := if c.bufferSize = 0 then ws else c.bufferSize
  let ss := if c.shrinkSize = 0 then
      (if bs < Facts.shrinkSmallLimit then bs >>> 1 else Facts.defShrinkSize)
    else c.shrinkSize
  let bl := if c.blockSize = 0 then Facts.defBlockSize else c.blockSize
  { c with windowSize := ws, bufferSize := bs, shrinkSize := ss, blockSize := bl }

/-- `hashConfig.SetDefaults` on (InputLen, HashBits) -/
def hashDefaults (il hb : Int) : Int × Int :=
  (if il = 0 then Facts.defInputLen else il, if hb = 0 then Facts.defHashBits else hb)

def setDefaults (k : Kind) (c : Cfg) : Cfg :=
  match k with
  | .HP | .BHP =>
    let c := bufDefaults c
    let (il, hb) := hashDefaults c.inputLen c.hashBits
    { c with inputLen := il, hashBits := hb }
  | .DHP | .BDHP =>
    let c := bufDefaults c
    let (il1, hb1) := hashDefaults c.inputLen1 c.hashBits1
    let il2 := if c.inputLen2 = 0 then (if il1 < Facts.dhSmallInputLen then Facts.defInputLen2Small else Facts.defInputLen2Large)
               else c.inputLen2
    let (il2, hb2) := hashDefaults il2 c.hashBits2
    { c with inputLen1 := il1, hashBits1 := hb1, inputLen2 := il2, hashBits2 := hb2 }
  | .BUP =>
    let c := bufDefaults c
    { c with inputLen := if c.inputLen = 0 then Facts.defBucketInputLen else c.inputLen,
             hashBits := if c.hashBits = 0 then Facts.defBucketHashBits else c.hashBits,
             bucketSize := if c.bucketSize = 0 then Facts.defBucketSize else c.bucketSize }
  | .GSAP =>
    let c := bufDefaults c
    { c with minMatchLen := if c.minMatchLen = 0 then Facts.defMinMatchLen else c.minMatchLen }
  | .OSAP =>
    -- `if bc.BufferSize == 0 { bc.SetDefaults(); bc.BufferSize = bc.WindowSize }` is what
    -- BufConfig.SetDefaults does anyway
    let c := bufDefaults c
    { c with minMatchLen := if c.minMatchLen = 0 then Facts.defOsapMinMatchLen else c.minMatchLen,
             maxMatchLen := if c.maxMatchLen = 0 then Facts.defMaxMatchLen else c.maxMatchLen,
             cost := if c.cost = "" then Facts.defCost else c.cost }

/-! ### Verify -/

/-- `BufConfig.Verify` (64-bit `int`) -/
def bufVerify (c : Cfg) : Bool :=
  let maxSize : Int := Facts.maxUint32 - Facts.margin
  (1 ≤ c.bufferSize ∧ c.bufferSize ≤ maxSize) ∧
  (0 ≤ c.shrinkSize ∧ c.shrinkSize < c.bufferSize) ∧
  (0 ≤ c.windowSize ∧ c.windowSize ≤ maxSize) ∧
  (1 ≤ c.blockSize ∧ c.blockSize ≤ maxSize)

/-- `hashConfig.Verify` / `bucketConfig.Verify` range check with the given HashBits limit -/
def hashVerify (il hb maxBits : Int) : Bool :=
  (Facts.minInputLen ≤ il ∧ il ≤ Facts.maxInputLen) ∧
  (0 ≤ hb ∧ hb ≤ (if 8 * il < maxBits then 8 * il else maxBits))

def verify (k : Kind) (c : Cfg) : Bool :=
  match k with
  | .HP | .BHP => bufVerify c && hashVerify c.inputLen c.hashBits Facts.maxHashBits
  | .DHP | .BDHP =>
    bufVerify c && hashVerify c.inputLen1 c.hashBits1 Facts.maxHashBits &&
      hashVerify c.inputLen2 c.hashBits2 Facts.maxHashBits && decide (c.inputLen1 < c.inputLen2)
  | .BUP =>
    bufVerify c && hashVerify c.inputLen c.hashBits Facts.maxBucketHashBits &&
      decide (Facts.minBucketSize ≤ c.bucketSize ∧ c.bucketSize ≤ Facts.maxBucketSize)
  | .GSAP =>
    bufVerify c && decide (2 ≤ c.minMatchLen) && decide (c.minMatchLen ≤ c.windowSize) &&
      decide (c.windowSize ≤ Facts.maxInt32) && decide (c.bufferSize ≤ Facts.maxInt32)
  | .OSAP =>
    bufVerify c && decide (2 ≤ c.minMatchLen ∧ c.minMatchLen ≤ c.maxMatchLen) &&
      decide (c.cost = Facts.defCost) && decide (c.bufferSize ≤ Facts.maxInt32)

/-- `NewParser` succeeds iff the defaults-completed configuration verifies -/
def accepted (k : Kind) (c : Cfg) : Bool := verify k (setDefaults k (c.restrict k))

/-- canonical rendering `k=v` in declaration order of the configuration type -/
def Cfg.render (k : Kind) (c : Cfg) : String :=
  let get (f : String) : String :=
    match f with
    | "ShrinkSize" => toString c.shrinkSize | "BufferSize" => toString c.bufferSize
    | "WindowSize" => toString c.windowSize | "BlockSize" => toString c.blockSize
    | "InputLen" => toString c.inputLen | "HashBits" => toString c.hashBits
    | "InputLen1" => toString c.inputLen1 | "HashBits1" => toString c.hashBits1
    | "InputLen2" => toString c.inputLen2 | "HashBits2" => toString c.hashBits2
    | "MinMatchLen" => toString c.minMatchLen | "MaxMatchLen" => toString c.maxMatchLen
    | "BucketSize" => toString c.bucketSize | "Cost" => c.cost
    | _ => "?"
  ",".intercalate (k.fields.map fun f => s!"{f}={get f}")

end LZ
