/-
  LzModel.BytesW — word-at-a-time byte comparison, modelled after the Go sources

    bytes.go        `_getLE64`, `_getLE32`, `getLE64`, `lcp`, `lcs`
    suffix/lcp.go   `matchLen` (same text as `lcp`)
    hp.go, bhp.go, dhp.go, bdhp.go   the inlined match length computation of the hash parsers

  The functions follow the Go text statement by statement.  Everything that can panic in Go
  (index expression, slice expression) yields `none`; `LzProofs.BytesProps` proves that `none`
  is never produced under the calling conditions and that the results are equal to the
  byte-level specification functions `lcpLen`, `lcsLen`, `le64At` of `LzModel.Basic`.

  Core Lean only, executable.
-/
import LzModel.Basic
namespace LZ.BytesW

/-! ## Go slice expressions -/

/-- `p[i:]` (panics for `i > len(p)`) -/
def sliceFrom (p : List Byte) (i : Nat) : Option (List Byte) :=
  if i ≤ p.length then some (p.drop i) else none

/-- `p[:n]` where `cap(p)` is the length of `p ++ behind`: reslicing beyond `len(p)` up to the
    capacity is legal in Go and makes the bytes `behind` visible. -/
def sliceTo (p behind : List Byte) (n : Nat) : Option (List Byte) :=
  if n ≤ (p ++ behind).length then some ((p ++ behind).take n) else none

/-! ## loads -/

/-- the expression of `_getLE32` -/
def le32v (b0 b1 b2 b3 : Byte) : UInt32 :=
  b0.toUInt32 ||| b1.toUInt32 <<< 8 ||| b2.toUInt32 <<< 16 ||| b3.toUInt32 <<< 24

/-- the expression of `_getLE64` -/
def le64v (b0 b1 b2 b3 b4 b5 b6 b7 : Byte) : UInt64 :=
  b0.toUInt64 ||| b1.toUInt64 <<< 8 ||| b2.toUInt64 <<< 16 ||| b3.toUInt64 <<< 24 |||
  b4.toUInt64 <<< 32 ||| b5.toUInt64 <<< 40 ||| b6.toUInt64 <<< 48 ||| b7.toUInt64 <<< 56

/-- `_getLE32(p)`: `_ = p[3]` panics for `len(p) < 4` -/
def le32 : List Byte → Option UInt32
  | b0 :: b1 :: b2 :: b3 :: _ => some (le32v b0 b1 b2 b3)
  | _ => none

/-- `_getLE64(p)`: `_ = p[7]` panics for `len(p) < 8` -/
def le64 : List Byte → Option UInt64
  | b0 :: b1 :: b2 :: b3 :: b4 :: b5 :: b6 :: b7 :: _ => some (le64v b0 b1 b2 b3 b4 b5 b6 b7)
  | _ => none

/-- `getLE64(p)`: the `switch len(p)` -/
def getLE64 : List Byte → UInt64
  | [] => 0
  | [b0] => b0.toUInt64
  | [b0, b1] => b0.toUInt64 ||| b1.toUInt64 <<< 8
  | [b0, b1, b2] => b0.toUInt64 ||| b1.toUInt64 <<< 8 ||| b2.toUInt64 <<< 16
  | [b0, b1, b2, b3] => (le32v b0 b1 b2 b3).toUInt64
  | [b0, b1, b2, b3, b4] => (le32v b0 b1 b2 b3).toUInt64 ||| b4.toUInt64 <<< 32
  | [b0, b1, b2, b3, b4, b5] =>
    (le32v b0 b1 b2 b3).toUInt64 ||| b4.toUInt64 <<< 32 ||| b5.toUInt64 <<< 40
  | [b0, b1, b2, b3, b4, b5, b6] =>
    (le32v b0 b1 b2 b3).toUInt64 ||| b4.toUInt64 <<< 32 ||| b5.toUInt64 <<< 40 |||
      b6.toUInt64 <<< 48
  | b0 :: b1 :: b2 :: b3 :: b4 :: b5 :: b6 :: b7 :: _ => le64v b0 b1 b2 b3 b4 b5 b6 b7

/-! ## math/bits -/

/-- trailing zeros of the `w`-bit value `n` (`w` for `n = 0`) -/
def ctz : Nat → Nat → Nat
  | 0, _ => 0
  | w + 1, n => if n % 2 = 1 then 0 else ctz w (n / 2) + 1

/-- `bits.Len` restricted to `w` bits: minimal number of bits needed to represent `n` -/
def bitLen : Nat → Nat → Nat
  | 0, _ => 0
  | w + 1, n => if n = 0 then 0 else bitLen w (n / 2) + 1

/-- `bits.TrailingZeros64` -/
def tz64 (x : UInt64) : Nat := ctz 64 x.toNat
/-- `bits.TrailingZeros32` -/
def tz32 (x : UInt32) : Nat := ctz 32 x.toNat
/-- `bits.LeadingZeros64(x) = 64 - bits.Len64(x)` -/
def lz64 (x : UInt64) : Nat := 64 - bitLen 64 x.toNat

/-- Go `x << s` for `uint64 x` and a non-negative `int s`: shifts by 64 or more give 0 -/
def shl64 (x : UInt64) (s : Nat) : UInt64 := if s < 64 then x <<< UInt64.ofNat s else 0

/-! ## `lcp` (bytes.go) and `matchLen` (suffix/lcp.go) -/

/-- `for i, b := range q { if p[i] != b { break }; n++ }; return n` -/
def lcpBytes : List Byte → List Byte → Nat → Option Nat
  | _, [], n => some n
  | [], _ :: _, _ => none                     -- `p[i]` out of range
  | a :: p, b :: q, n => if a ≠ b then some n else lcpBytes p q (n + 1)

/-- the part of `lcp` behind the 8-byte loop -/
def lcpTail (p q : List Byte) (n : Nat) : Option Nat :=
  if 4 ≤ q.length then do
    let x := (← le32 p) ^^^ (← le32 q)
    let k := tz32 x >>> 3
    let n := n + k
    if k < 4 then return n
    lcpBytes (← sliceFrom p 4) (← sliceFrom q 4) n
  else
    lcpBytes p q n

/-- `for len(q) >= 8 { … }` of `lcp`, followed by the rest of the function -/
def lcpLoop (p q : List Byte) (n : Nat) : Option Nat :=
  if _h : 8 ≤ q.length then do
    let x := (← le64 p) ^^^ (← le64 q)
    let k := tz64 x >>> 3
    let n := n + k
    if k < 8 then return n
    let p' ← sliceFrom p 8
    lcpLoop p' (q.drop 8) n
  else
    lcpTail p q n
termination_by q.length
decreasing_by simp only [List.length_drop]; omega

/-- `lcp(p, q)`; `none` = panic -/
def lcpW? (p q : List Byte) : Option Nat :=
  if q.length > p.length then lcpLoop q p 0 else lcpLoop p q 0

/-- `lcp(p, q)` (0 stands for a panic, which `lcpW?_eq` excludes) -/
def lcpW (p q : List Byte) : Nat := (lcpW? p q).getD 0

/-! ## `lcs` (bytes.go) -/

/-- the part of `lcs` behind the loop; `i` is the value after `i += 8` -/
def lcsTail (p q : List Byte) (i : Int) (n : Nat) : Option Nat :=
  if i > 0 then
    let s := (8 - i).toNat <<< 3
    let x := shl64 (getLE64 q) s
    let x := x ^^^ shl64 (getLE64 p) s
    let k := lz64 x >>> 3
    let k := if (k : Int) > i then i.toNat else k
    some (n + k)
  else
    some n

/-- `for i = len(q) - 8; i >= 0; i -= 8 { … }` of `lcs`, followed by the rest of the function -/
def lcsLoop (p q : List Byte) (i : Int) (n : Nat) : Option Nat :=
  if _h : i ≥ 0 then do
    let x := (← le64 (← sliceFrom p i.toNat)) ^^^ (← le64 (← sliceFrom q i.toNat))
    let k := lz64 x >>> 3
    let n := n + k
    if k < 8 then return n
    lcsLoop p q (i - 8) n
  else
    lcsTail p q (i + 8) n
termination_by (i + 8).toNat
decreasing_by omega

/-- `lcs` behind the swap: `p = p[len(p)-len(q):]`, then the loop starting at `i = len(q) - 8` -/
def lcsMain (p q : List Byte) : Option Nat := do
  let p ← sliceFrom p (p.length - q.length)
  lcsLoop p q ((q.length : Int) - 8) 0

/-- `lcs(p, q)`; `none` = panic -/
def lcsW? (p q : List Byte) : Option Nat :=
  if q.length > p.length then lcsMain q p else lcsMain p q

/-- `lcs(p, q)` (0 stands for a panic, which `lcsW?_eq` excludes) -/
def lcsW (p q : List Byte) : Nat := (lcsW? p q).getD 0

/-! ## the match length computation inlined in the hash parsers

    ```
    p := s.Data[:s.W+n]
    inputEnd := len(p) - s.inputLen + 1
    _p := s.Data[:inputEnd+7]              // may reach up to 7 bytes behind len(p)
    for ; i < inputEnd; i++ {
        y := _getLE64(_p[i:])
        … j := int(entry.pos) …            // 0 < i-j
        k := bits.TrailingZeros64(_getLE64(_p[j:])^y) >> 3
        if k > len(p)-i { k = len(p) - i }
        if k < minMatchLen { continue }
        if k == 8 { r := p[j+8:]; q := p[i+8:]; … }
    ```
    `behind` stands for the memory behind `p` inside the capacity of `s.Data` (bytes of the buffer
    behind the block, or stale bytes behind `len(s.Data)`).
-/

/-- first word: `k` before the test against `minMatchLen`; `_p` is the resliced buffer -/
def matchLen8 (_p p : List Byte) (i j : Nat) : Option Nat := do
  let y ← le64 (← sliceFrom _p i)
  let k := tz64 ((← le64 (← sliceFrom _p j)) ^^^ y) >>> 3
  let k := if k > p.length - i then p.length - i else k
  return k

/-- `if len(q) > 0 { x := getLE64(r)^getLE64(q); b := tz(x)>>3; if b > len(q) {b = len(q)}; k += b }` -/
def matchExtTail (r q : List Byte) (k : Nat) : Nat :=
  if q.length > 0 then
    let x := getLE64 r ^^^ getLE64 q
    let b := tz64 x >>> 3
    let b := if b > q.length then q.length else b
    k + b
  else k

/-- `for len(q) >= 8 { … goto match … }` followed by the tail -/
def matchExtLoop (r q : List Byte) (k : Nat) : Option Nat :=
  if _h : 8 ≤ q.length then do
    let x := (← le64 r) ^^^ (← le64 q)
    let b := tz64 x >>> 3
    let k := k + b
    if b < 8 then return k
    let r' ← sliceFrom r 8
    matchExtLoop r' (q.drop 8) k
  else
    some (matchExtTail r q k)
termination_by q.length
decreasing_by simp only [List.length_drop]; omega

/-- `if k == 8 { r := p[j+8:]; q := p[i+8:]; … }` -/
def matchExt (p : List Byte) (i j k : Nat) : Option Nat :=
  if k = 8 then do
    let r ← sliceFrom p (j + 8)
    let q ← sliceFrom p (i + 8)
    matchExtLoop r q k
  else some k

/-- The whole computation for a candidate `j` at position `i`.
    Outer `none`: panic. Inner `none`: `continue` (candidate rejected, `k < minMatchLen`);
    inner `some k`: the match length that goes into the sequence. -/
def matchLenInline (p behind : List Byte) (inputEnd minMatchLen i j : Nat) :
    Option (Option Nat) := do
  let _p ← sliceTo p behind (inputEnd + 7)
  let k ← matchLen8 _p p i j
  if k < minMatchLen then return none
  let k ← matchExt p i j k
  return some k

/-! ## line protocol: the unit operations answered with the word-level functions -/

def hexDigit (c : Char) : Option Nat :=
  if '0' ≤ c ∧ c ≤ '9' then some (c.toNat - '0'.toNat)
  else if 'a' ≤ c ∧ c ≤ 'f' then some (c.toNat - 'a'.toNat + 10)
  else none

def unhexAux : List Char → List Byte → List Byte
  | a :: b :: rest, acc =>
    match hexDigit a, hexDigit b with
    | some x, some y => unhexAux rest (UInt8.ofNat (x * 16 + y) :: acc)
    | _, _ => acc.reverse
  | _, acc => acc.reverse

/-- same format as `Driver.unhex`: lower-case hex, `-` for the empty string -/
def unhex (s : String) : List Byte := if s = "-" then [] else unhexAux s.toList []

def showRes : Option Nat → String
  | some n => toString n
  | none => "panic"

/-- `ulcp a b`, `ulcs a b`, `ule64 a` answered by the word-level model; `none` for other ops.
    `umatch p behind inputEnd minMatchLen i j` runs the inlined parser computation
    (answer `panic`, `skip` or the length). -/
def stepLine (ws : List String) : Option String :=
  match ws with
  | ["ulcp", a, b] => some (showRes (lcpW? (unhex a) (unhex b)))
  | ["ulcs", a, b] => some (showRes (lcsW? (unhex a) (unhex b)))
  | ["ule64", a] => some (toString (getLE64 (unhex a)).toNat)
  | ["umatch", p, behind, e, mm, i, j] =>
    let n (s : String) : Nat := s.toNat?.getD 0
    some (match matchLenInline (unhex p) (unhex behind) (n e) (n mm) (n i) (n j) with
      | none => "panic"
      | some none => "skip"
      | some (some k) => toString k)
  | _ => none

end LZ.BytesW
