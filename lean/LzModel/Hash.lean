/-
  LzModel.Hash — the search structures of the hash parsers (hash.go, bucket_hash.go):
  single hash table, the two tables of the double-hash parsers, bucket hash with ring
  index, `shiftOffsets`, `processSegment`, and the match finders (`probe`) of
  HP, BHP, DHP, BDHP and BUP exactly as their `Parse` loops use them.
-/
import LzModel.Loop
import LzModel.Generated.Facts
namespace LZ

def prime64 : UInt64 := UInt64.ofNat Facts.prime

/-- `hashValue(x, 64 - hashBits)`; Go's `>> 64` yields 0 -/
def hashValue (x : UInt64) (hashBits : Nat) : Nat :=
  if hashBits = 0 then 0
  else ((x * prime64) >>> (UInt64.ofNat (64 - hashBits))).toNat

/-- `1<<(inputLen*8) - 1` in uint64 arithmetic -/
def maskOf (inputLen : Nat) : UInt64 :=
  if inputLen ≥ 8 then 0xFFFFFFFFFFFFFFFF
  else ((1 : UInt64) <<< (UInt64.ofNat (8 * inputLen))) - 1

def lo32 (x : UInt64) : Nat := x.toNat % 4294967296

/-! ### single hash table -/

structure HashT where
  tbl : Array (Nat × Nat)      -- (pos, value)
  inputLen : Nat
  hashBits : Nat
deriving Repr, Inhabited

namespace HashT

def new (inputLen hashBits : Nat) : HashT :=
  { tbl := Array.replicate (2 ^ hashBits) (0, 0), inputLen := inputLen, hashBits := hashBits }

def clear (h : HashT) : HashT := { h with tbl := Array.replicate h.tbl.size (0, 0) }

def key (h : HashT) (p : List Byte) (i : Nat) : UInt64 := le64At p i &&& maskOf h.inputLen

def insert (h : HashT) (p : List Byte) (i : Nat) : HashT :=
  let x := h.key p i
  { h with tbl := h.tbl.setIfInBounds (hashValue x h.hashBits) (i, lo32 x) }

/-- insert positions `a, a+1, …, a+n-1` in this order -/
def insertRange (h : HashT) (p : List Byte) (a : Nat) : Nat → HashT
  | 0 => h
  | n+1 => (h.insert p a).insertRange p (a+1) n

def shiftOffsets (h : HashT) (delta : Nat) : HashT :=
  if delta = 0 then h
  else { h with tbl := h.tbl.map fun e => if e.1 < delta then (0, 0) else (e.1 - delta, e.2) }

end HashT

/-- `processSegment(a, b)` of `hashDictionary` on the buffer contents `data`;
    `a` and `b` are Go ints (may be negative) -/
def processSegment1 (h : HashT) (data : List Byte) (a b : Int) : HashT :=
  let a := if a < 0 then 0 else a
  let c : Int := (data.length : Int) - h.inputLen + 1
  let b := if c < b then c else b
  if b ≤ 0 then h else h.insertRange data a.toNat (b.toNat - a.toNat)

/-- `processSegment(a, b)` of `doubleHashDictionary` -/
def processSegment2 (h1 h2 : HashT) (data : List Byte) (a b : Int) : HashT × HashT :=
  let a := if a < 0 then 0 else a
  let c1 : Int := (data.length : Int) - h1.inputLen + 1
  let b1 := if c1 < b then c1 else b
  let b1 := if b1 < 0 then 0 else b1
  let c2 : Int := (data.length : Int) - h2.inputLen + 1
  let b2 := if c2 < b then c2 else b
  let b2 := if b2 < 0 then 0 else b2
  -- positions a..b2-1 go into both tables, b2..b1-1 into h1 only
  let h1' := (h1.insertRange data a.toNat (b2.toNat - a.toNat)).insertRange data b2.toNat (b1.toNat - b2.toNat)
  let h2' := h2.insertRange data a.toNat (b2.toNat - a.toNat)
  (h1', h2')

/-! ### match finders of the single-hash parsers -/

/-- backward extension of BHP / BDHP: `lcs(p[j-back:j], p[:i])`, `back = min(i-li, j)` -/
def backExt (p : List Byte) (i li j : Nat) : Nat :=
  if i > li then
    let back := min (i - li) j
    lcsLen ((p.take j).drop (j - back)) (p.take i)
  else 0

/-- HP (`back = false`) and BHP (`back = true`) -/
def hpProbe (ws minMatch inputEnd : Nat) (back : Bool)
    (h : HashT) (p : List Byte) (i li : Nat) : HashT × Option (Nat × Nat × Nat) :=
  let x := h.key p i
  let idx := hashValue x h.hashBits
  let entry := h.tbl.getD idx (0, 0)
  let v := lo32 x
  let h1 := { h with tbl := h.tbl.setIfInBounds idx (i, v) }
  if v ≠ entry.2 then (h1, none) else
  let j := entry.1
  if ¬ (j < i ∧ i - j ≤ ws) then (h1, none) else
  let k := lcpLen (p.drop j) (p.drop i)
  if k < minMatch then (h1, none) else
  let m := if back then backExt p i li j else 0
  let s := i - m
  let k := k + m
  let b := min (s + k) inputEnd
  (h1.insertRange p (s + 1) (b - (s + 1)), some (s, k, i - j))

/-! ### double hash (DHP, BDHP) -/

structure Hash2 where
  h1 : HashT
  h2 : HashT
deriving Repr, Inhabited

def dhpProbe (ws minMatch e1 e2 : Nat) (back : Bool)
    (d : Hash2) (p : List Byte) (i li : Nat) : Hash2 × Option (Nat × Nat × Nat) :=
  if i < e2 then
    -- first loop: both tables
    let x2 := d.h2.key p i
    let idx2 := hashValue x2 d.h2.hashBits
    let entry2 := d.h2.tbl.getD idx2 (0, 0)
    let v2 := lo32 x2
    let t2 := { d.h2 with tbl := d.h2.tbl.setIfInBounds idx2 (i, v2) }
    let x1 := d.h1.key p i
    let idx1 := hashValue x1 d.h1.hashBits
    let entry1 := d.h1.tbl.getD idx1 (0, 0)
    let v1 := lo32 x1
    let t1 := { d.h1 with tbl := d.h1.tbl.setIfInBounds idx1 (i, v1) }
    let d1 : Hash2 := { h1 := t1, h2 := t2 }
    let cand : Option (Nat × Nat) :=
      if v2 ≠ entry2.2 then (if v1 ≠ entry1.2 then none else some entry1) else some entry2
    match cand with
    | none => (d1, none)
    | some entry =>
      let j := entry.1
      if ¬ (j < i ∧ i - j ≤ ws) then (d1, none) else
      let k := lcpLen (p.drop j) (p.drop i)
      if k < minMatch then (d1, none) else
      let m := if back then backExt p i li j else 0
      let s := i - m
      let k := k + m
      let li' := s + k
      let n1 := min li' e1 - (s + 1)
      let n2 := min li' e2 - (s + 1)
      -- DHP re-indexes both tables, BDHP only h1 (bdhp.go)
      let t1' := t1.insertRange p (s + 1) n1
      let t2' := if back then t2 else t2.insertRange p (s + 1) n2
      ({ h1 := t1', h2 := t2' }, some (s, k, i - j))
  else
    -- second loop: h1 only
    let x1 := d.h1.key p i
    let idx1 := hashValue x1 d.h1.hashBits
    let entry := d.h1.tbl.getD idx1 (0, 0)
    let v1 := lo32 x1
    let t1 := { d.h1 with tbl := d.h1.tbl.setIfInBounds idx1 (i, v1) }
    let d1 : Hash2 := { d with h1 := t1 }
    if v1 ≠ entry.2 then (d1, none) else
    let j := entry.1
    if ¬ (j < i ∧ i - j ≤ ws) then (d1, none) else
    let k := lcpLen (p.drop j) (p.drop i)
    if k < minMatch then (d1, none) else
    let m := if back then backExt p i li j else 0
    let s := i - m
    let k := k + m
    let b := min (s + k) e1
    -- `for ; j < b; j++` starts at the match source j (dhp.go / bdhp.go, second loop)
    ({ d1 with h1 := t1.insertRange p j (b - j) }, some (s, k, i - j))

/-! ### bucket hash (BUP) -/

structure BucketT where
  buckets : Array (Nat × Nat)   -- (pos, val), bucket h occupies [h*bucketSize, (h+1)*bucketSize)
  indexes : Array Nat
  inputLen : Nat
  hashBits : Nat
  bucketSize : Nat
deriving Repr, Inhabited

namespace BucketT

def new (inputLen hashBits bucketSize : Nat) : BucketT :=
  { buckets := Array.replicate (2 ^ hashBits * bucketSize) (0, 0),
    indexes := Array.replicate (2 ^ hashBits) 0,
    inputLen := inputLen, hashBits := hashBits, bucketSize := bucketSize }

def clear (b : BucketT) : BucketT :=
  { b with buckets := Array.replicate b.buckets.size (0, 0),
           indexes := Array.replicate b.indexes.size 0 }

def key (b : BucketT) (p : List Byte) (i : Nat) : UInt64 := le64At p i &&& maskOf b.inputLen

def add (b : BucketT) (h pos val : Nat) : BucketT :=
  let i := b.indexes.getD h 0
  let i' := if i + 1 ≥ b.bucketSize then 0 else i + 1
  { b with buckets := b.buckets.setIfInBounds (h * b.bucketSize + i) (pos, val),
           indexes := b.indexes.setIfInBounds h i' }

def insert (b : BucketT) (p : List Byte) (i : Nat) : BucketT :=
  let x := b.key p i
  b.add (hashValue x b.hashBits) i (lo32 x)

def insertRange (b : BucketT) (p : List Byte) (a : Nat) : Nat → BucketT
  | 0 => b
  | n+1 => (b.insert p a).insertRange p (a+1) n

/-- one bucket of `shiftOffsets`: ring order from the index, drop `pos < delta`, compact -/
def shiftBucket (bs delta : Nat) (bucket : List (Nat × Nat)) (j : Nat) : List (Nat × Nat) × Nat :=
  let ring := bucket.drop j ++ bucket.take j
  let kept := (ring.filter fun e => ¬ e.1 < delta).map fun e => (e.1 - delta, e.2)
  let i := kept.length
  (kept ++ List.replicate (bs - i) (0, 0), if i ≥ bs then 0 else i)

def shiftOffsets (b : BucketT) (delta : Nat) : BucketT :=
  if delta = 0 then b
  else
    let n := b.indexes.size
    let res := (List.range n).map fun h =>
      shiftBucket b.bucketSize delta
        ((b.buckets.extract (h * b.bucketSize) ((h + 1) * b.bucketSize)).toList) (b.indexes.getD h 0)
    { b with buckets := (res.map (·.1)).flatten.toArray, indexes := (res.map (·.2)).toArray }

end BucketT

def processSegmentB (b : BucketT) (data : List Byte) (a e : Int) : BucketT :=
  let a := if a < 0 then 0 else a
  let c : Int := (data.length : Int) - b.inputLen + 1
  let e := if c < e then c else e
  if e ≤ 0 then b else b.insertRange data a.toNat (e.toNat - a.toNat)

/-- the scan over the slots of one bucket in `bucketParser.Parse` -/
def bupScan (bk : BucketT) (p : List Byte) (i ws v base : Nat) :
    List Nat → Nat → Nat → Nat × Nat
  | [], o, k => (o, k)
  | s :: rest, o, k =>
    let e := bk.buckets.getD (base + s) (0, 0)
    if v ≠ e.2 then bupScan bk p i ws v base rest o k
    else
      let j := e.1
      if ¬ (j < i ∧ i - j ≤ ws) then bupScan bk p i ws v base rest o k
      else if k > 0 ∧ p[j + k - 1]? ≠ p[i + k - 1]? then bupScan bk p i ws v base rest o k
      else
        let ke := lcpLen (p.drop j) (p.drop i)
        if ke < k ∨ (ke = k ∧ i - j ≥ o) then bupScan bk p i ws v base rest o k
        else bupScan bk p i ws v base rest (i - j) ke

def bupProbe (ws minMatch inputEnd : Nat)
    (bk : BucketT) (p : List Byte) (i _li : Nat) : BucketT × Option (Nat × Nat × Nat) :=
  let x := bk.key p i
  let h := hashValue x bk.hashBits
  let v := lo32 x
  let (o, k) := bupScan bk p i ws v (h * bk.bucketSize) (List.range bk.bucketSize) 0 0
  let bk1 := bk.add h i v
  if k < minMatch then (bk1, none)
  else
    let b := min (i + k) inputEnd
    (bk1.insertRange p (i + 1) (b - (i + 1)), some (i, k, o))

end LZ
