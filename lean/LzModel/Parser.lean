/-
  LzModel.Parser — the seven parsers as one state machine:
  `newParser`, `Write`, `ReadFrom`, `Parse(&blk, flags)`, `Parse(nil, flags)`, `Shrink`,
  `Reset`, `ReadAt`, `ByteAt`, and `Wrap` (wrap.go) on top.
-/
import LzModel.PBuf
import LzModel.Hash
import LzModel.Sap
import LzModel.Config
namespace LZ

inductive Dict where
  | single (h : HashT)
  | double (d : Hash2)
  | bucket (b : BucketT)
  | gsap (g : GsapD)
  | osap (o : OsapD)
deriving Inhabited

structure Parser where
  kind : Kind
  cfg : Cfg            -- defaults-completed configuration as reported by ParserConfig()
  buf : PBuf
  dict : Dict
deriving Inhabited

def Cfg.bufCfg (c : Cfg) : BufCfg :=
  { shrinkSize := c.shrinkSize.toNat, bufferSize := c.bufferSize.toNat,
    windowSize := c.windowSize.toNat, blockSize := c.blockSize.toNat }

def freshDict (k : Kind) (c : Cfg) : Dict :=
  match k with
  | .HP | .BHP => .single (HashT.new c.inputLen.toNat c.hashBits.toNat)
  | .DHP | .BDHP => .double { h1 := HashT.new c.inputLen1.toNat c.hashBits1.toNat,
                              h2 := HashT.new c.inputLen2.toNat c.hashBits2.toNat }
  | .BUP => .bucket (BucketT.new c.inputLen.toNat c.hashBits.toNat c.bucketSize.toNat)
  | .GSAP => .gsap GsapD.empty
  | .OSAP => .osap OsapD.empty

/-- `cfg.NewParser()` -/
def newParser (k : Kind) (raw : Cfg) : Option Parser :=
  let c := setDefaults k (raw.restrict k)
  if verify k c then
    some { kind := k, cfg := c, buf := PBuf.init c.bufCfg, dict := freshDict k c }
  else none

namespace Parser

def minMatch (s : Parser) : Nat :=
  match s.kind with
  | .HP | .BHP | .BUP => min 3 s.cfg.inputLen.toNat
  | .DHP | .BDHP => min 3 s.cfg.inputLen1.toNat
  | .GSAP | .OSAP => s.cfg.minMatchLen.toNat

def write (s : Parser) (p : List Byte) : Parser × Nat × Err :=
  let (b, n, e) := s.buf.write p
  ({ s with buf := b }, n, e)

def readFrom (s : Parser) (r : Reader) : Parser × Reader × Nat × Err :=
  let (b, r', n, e) := s.buf.readFrom r
  ({ s with buf := b }, r', n, e)

def clearDict (s : Parser) : Dict :=
  match s.dict with
  | .single h => .single h.clear
  | .double d => .double { h1 := d.h1.clear, h2 := d.h2.clear }
  | .bucket b => .bucket b.clear
  | .gsap _ => .gsap GsapD.empty
  | .osap _ => .osap OsapD.empty

def reset (s : Parser) (data : List Byte) (capExtra : Nat) : Parser × Err :=
  let (b, e) := s.buf.reset data capExtra
  if e = .ok then ({ s with buf := b, dict := s.clearDict }, e) else (s, e)

def shrink (s : Parser) : Parser × Nat :=
  let (b, delta) := s.buf.shrink
  if delta = 0 then (s, 0)
  else
    let d := match s.dict with
      | .single h => Dict.single (h.shiftOffsets delta)
      | .double d => .double { h1 := d.h1.shiftOffsets delta, h2 := d.h2.shiftOffsets delta }
      | .bucket bk => .bucket (bk.shiftOffsets delta)
      | .gsap _ => .gsap GsapD.empty
      | .osap _ => .osap OsapD.empty
    ({ s with buf := b, dict := d }, delta)

/-- number of bytes the next block covers: `min(len(Data) - W, BlockSize)` -/
def blockN (s : Parser) : Nat := min (s.buf.data.length - s.buf.w) s.buf.cfg.blockSize

/-- `Parse(nil, flags)` -/
def parseNil (s : Parser) : Parser × Nat × Err :=
  let n := s.blockN
  if n = 0 then (s, 0, .empty)
  else
    let w := s.buf.w
    let t := w + n
    let data := s.buf.data
    let d := match s.dict with
      | .single h => Dict.single (processSegment1 h data ((w : Int) - h.inputLen + 1) t)
      | .double d =>
        let (h1, h2) := processSegment2 d.h1 d.h2 data ((w : Int) - d.h2.inputLen + 1) t
        .double { h1 := h1, h2 := h2 }
      | .bucket bk => .bucket (processSegmentB bk data ((w : Int) - bk.inputLen + 1) t)
      | .gsap g => .gsap g
      | .osap o => .osap o
    ({ s with buf := { s.buf with w := t }, dict := d }, n, .ok)

/-- run the greedy loop of a hash/GSAP parser and finish the block -/
def runGreedy {δ} (F : Finder δ) (d : δ) (p : List Byte) (w stop flags : Nat) : δ × Nat × Block × Nat :=
  let st := greedyLoop F p stop { dict := d, i := w, litIndex := w, seqs := [], lits := [] }
  let (w', blk) := finishBlock p flags st
  (st.dict, w', blk, st.litIndex)

/-- `Parse(&blk, flags)` → (parser, n, err, block) -/
def parse (s : Parser) (flags : Nat) : Parser × Nat × Err × Block :=
  let n := s.blockN
  if n = 0 then (s, 0, .empty, ⟨[], []⟩)
  else
    let w := s.buf.w
    let data := s.buf.data
    let p := data.take (w + n)
    let ws := s.buf.cfg.windowSize
    let mm := s.minMatch
    -- the 7 byte margin: `s.Data[:inputEnd+7]` needs `inputEnd + 7 ≤ cap`
    let il : Nat := match s.dict with
      | .single h => h.inputLen | .double d => d.h1.inputLen | .bucket bk => bk.inputLen
      | _ => 0
    if il ≠ 0 ∧ (s.buf.cap : Int) < (p.length : Int) - il + 1 + Facts.margin then
      (s, 0, .panic, ⟨[], []⟩)
    else
    match s.dict with
    | .single h =>
      let h := processSegment1 h data ((w : Int) - h.inputLen + 1) w
      let inputEnd := p.length + 1 - h.inputLen
      let (h', w', blk, _) := runGreedy ⟨hpProbe ws mm inputEnd (s.kind == .BHP)⟩ h p w inputEnd flags
      ({ s with buf := { s.buf with w := w' }, dict := .single h' }, w' - w, .ok, blk)
    | .double d =>
      let (h1, h2) := processSegment2 d.h1 d.h2 data ((w : Int) - d.h2.inputLen + 1) w
      let e1 := p.length + 1 - h1.inputLen
      let e2 := p.length + 1 - h2.inputLen
      let (d', w', blk, _) := runGreedy ⟨dhpProbe ws mm e1 e2 (s.kind == .BDHP)⟩ ⟨h1, h2⟩ p w e1 flags
      ({ s with buf := { s.buf with w := w' }, dict := .double d' }, w' - w, .ok, blk)
    | .bucket bk =>
      let bk := processSegmentB bk data ((w : Int) - bk.inputLen + 1) w
      let inputEnd := p.length + 1 - bk.inputLen
      let (bk', w', blk, _) := runGreedy ⟨bupProbe ws mm inputEnd⟩ bk p w inputEnd flags
      ({ s with buf := { s.buf with w := w' }, dict := .bucket bk' }, w' - w, .ok, blk)
    | .gsap g =>
      let g := if w + n > g.sa.size then gsapSort data w else g
      let (g', w', blk, li) := runGreedy ⟨gsapProbe ws mm⟩ g p w p.length flags
      -- a truncated block leaves positions ≥ litIndex marked: drop the suffix array
      let g' := if flags % 2 = 1 ∧ blk.seqs ≠ [] ∧ li < p.length then { g' with sa := #[] } else g'
      ({ s with buf := { s.buf with w := w' }, dict := .gsap g' }, w' - w, .ok, blk)
    | .osap o =>
      let o := if w + n > o.start + o.edges.size then
          computeEdges data w ws mm s.cfg.maxMatchLen.toNat
        else o
      if o.nEdges = 0 then
        ({ s with buf := { s.buf with w := w + n }, dict := .osap o }, n, .ok,
         ⟨[], (data.drop w).take n⟩)
      else
        let path := shortestPath mm n o.edges (w - o.start)
        let (seqs, lits, _, li) := pathToSeqs p path w w [] []
        let (w', blk) :=
          if flags % 2 = 1 ∧ seqs ≠ [] then (li, (⟨seqs, lits⟩ : Block))
          else (p.length, ⟨seqs, lits ++ p.drop li⟩)
        ({ s with buf := { s.buf with w := w' }, dict := .osap o }, w' - w, .ok, blk)

end Parser

/-! ## Wrap -/

structure Wrapped where
  r : Reader
  s : Parser

/-- `WrappedParser.Parse`; each iteration without a block performs one `ReadFrom`, which
    consumes at least one reader response or ends the call — recursion on the responses -/
def Wrapped.parse (wp : Wrapped) (flags : Nat) : Wrapped × Nat × Err × Block :=
  let (s1, n, e, blk) := wp.s.parse flags
  if e ≠ .empty then ({ wp with s := s1 }, n, e, blk)
  else
    let (s2, _) := s1.shrink
    let (s3, r', k, e2) := s2.readFrom wp.r
    if k = 0 then
      if e2 = .full then ({ r := r', s := s3 }, 0, .panic, blk)
      else ({ r := r', s := s3 }, 0, e2, blk)
    else if h : r'.resps.length < wp.r.resps.length then
      Wrapped.parse { r := r', s := s3 } flags
    else ({ r := r', s := s3 }, 0, .panic, blk)   -- unreachable: k > 0 consumed a response
termination_by wp.r.resps.length

/-- `WrappedParser.Reset(r)` -/
def Wrapped.reset (wp : Wrapped) (r : Reader) : Wrapped × Err :=
  let (s, e) := wp.s.reset [] 0
  if e = .ok then ({ r := r, s := s }, .ok) else (wp, .panic)

end LZ
