/-
  LzModel.Driver — the line protocol between the Go harness and the model.
  One output line per input line.  See DESIGN.md §5.2 for the script languages.
-/
import LzModel.Parser
import LzModel.DecBuf
import LzModel.Bitset
import LzModel.Json
import LzModel.BitsetW
import LzModel.BytesW
import LzModel.CheckSA
namespace LZ.Driver
open LZ

/-! ### parsing / printing helpers -/

def hexDigit (c : Char) : Option Nat :=
  if '0' ≤ c ∧ c ≤ '9' then some (c.toNat - '0'.toNat)
  else if 'a' ≤ c ∧ c ≤ 'f' then some (c.toNat - 'a'.toNat + 10)
  else none

def unhexAux : List Char → List Byte → List Byte
  | a :: b :: rest, acc =>
    match hexDigit a, hexDigit b with
    | some x, some y => unhexAux rest (UInt8.ofNat (x * 16 + y) :: acc)
    | _, _ => acc.reverse
  | _, acc => acc.reverse

/-- generated payload `@seed:n`: byte k is `97 + ((7·k² + 13·k + seed) mod 1009) mod 5` (the harness
    computes the same bytes; keeps scripts with large buffers small) -/
def genBytes (seed n : Nat) : List Byte :=
  (List.range n).map fun k => UInt8.ofNat (97 + ((7 * k * k + 13 * k + seed) % 1009) % 5)

def unhex (s : String) : List Byte := if s = "-" then [] else unhexAux s.toList []

/-- aperiodic generated payload `#seed:n` (splitmix-style mixing of seed and index) -/
def mixBytes (seed n : Nat) : List Byte :=
  (List.range n).map fun k =>
    let x : UInt64 := UInt64.ofNat seed * 0x9E3779B97F4A7C15 + UInt64.ofNat k * 0xBF58476D1CE4E5B9
    let x := x ^^^ (x >>> 31)
    let x := x * 0x94D049BB133111EB
    let x := x ^^^ (x >>> 29)
    UInt8.ofNat ((x >>> 24).toNat % 256)

/-- payload operand of the parser machine: hex, or generated: `@seed:n` (period 1009, 5 letters),
    `#seed:n` (aperiodic), `=byte:n` (a run) -/
def payload (s : String) : List Byte :=
  let two (t : String) : Nat × Nat :=
    match t.splitOn ":" with
    | [a, b] => (a.toNat?.getD 0, b.toNat?.getD 0)
    | _ => (0, 0)
  if s.startsWith "@" then let (a, b) := two (s.drop 1).toString; genBytes a b
  else if s.startsWith "#" then let (a, b) := two (s.drop 1).toString; mixBytes a b
  else if s.startsWith "=" then let (a, b) := two (s.drop 1).toString; List.replicate b (UInt8.ofNat a)
  else unhex s

def hexChar (n : Nat) : Char := if n < 10 then Char.ofNat (48 + n) else Char.ofNat (87 + n)

def hex (bs : List Byte) : String :=
  if bs.isEmpty then "-"
  else String.mk (bs.foldr (fun b acc => hexChar (b.toNat / 16) :: hexChar (b.toNat % 16) :: acc) [])

def nat! (s : String) : Nat := s.toNat?.getD 0
def int! (s : String) : Int := s.toInt?.getD 0

def splitOn (s : String) (sep : String) : List String := if s = "-" ∨ s = "" then [] else s.splitOn sep

/-- `mx:e,mx:e` -/
def parseResps (s : String) : List (Nat × Nat) :=
  (splitOn s ",").map fun t => match t.splitOn ":" with
    | [a, b] => (nat! a, nat! b)
    | _ => (0, 1)

/-- `l:m:o:a;l:m:o:a` -/
def parseSeqs (s : String) : List Seq :=
  (splitOn s ";").map fun t => match t.splitOn ":" with
    | [l, m, o, a] => { litLen := nat! l, matchLen := nat! m, offset := nat! o, aux := nat! a }
    | _ => default

def showSeqs (ss : List Seq) : String :=
  if ss.isEmpty then "-"
  else ";".intercalate (ss.map fun s => s!"{s.litLen}:{s.matchLen}:{s.offset}:{s.aux}")

def showBlock (b : Block) : String := s!"{showSeqs b.seqs} {hex b.lits}"

def natList (s : String) : List Nat := (splitOn s ",").map nat!
def showNats (l : List Nat) : String := if l.isEmpty then "-" else ",".intercalate (l.map toString)

/-- `Field=v,Field=v` → union configuration -/
def parseCfg (s : String) : Cfg :=
  (splitOn s ",").foldl (fun c kv =>
    match kv.splitOn "=" with
    | [k, v] =>
      match k with
      | "ShrinkSize" => { c with shrinkSize := int! v } | "BufferSize" => { c with bufferSize := int! v }
      | "WindowSize" => { c with windowSize := int! v } | "BlockSize" => { c with blockSize := int! v }
      | "InputLen" => { c with inputLen := int! v } | "HashBits" => { c with hashBits := int! v }
      | "InputLen1" => { c with inputLen1 := int! v } | "HashBits1" => { c with hashBits1 := int! v }
      | "InputLen2" => { c with inputLen2 := int! v } | "HashBits2" => { c with hashBits2 := int! v }
      | "MinMatchLen" => { c with minMatchLen := int! v } | "MaxMatchLen" => { c with maxMatchLen := int! v }
      | "BucketSize" => { c with bucketSize := int! v } | "Cost" => { c with cost := v }
      | _ => c
    | [k] => if k = "Cost" then { c with cost := "" } else c
    | _ => c) {}

/-! ### Go slice growth (`growslice` for byte slices) -/

/-- `nextslicecap(newLen, oldCap)` -/
def nextSliceCapLoop (newLen : Nat) : Nat → Nat → Nat
  | 0, c => c
  | fuel+1, c => if c ≥ newLen then c else nextSliceCapLoop newLen fuel (c + (c + 768) / 4)

def nextSliceCap (newLen oldCap : Nat) : Nat :=
  let dbl := oldCap + oldCap
  if newLen > dbl then newLen
  else if oldCap < 256 then dbl
  else nextSliceCapLoop newLen 200 (oldCap + (oldCap + 768) / 4)

/-- `roundupsize` for noscan memory with the size class table `classes` (ascending) -/
def roundUp (classes : List Nat) (n : Nat) : Nat :=
  match classes.find? (fun c => c ≥ n) with
  | some c => c
  | none => (n + 8191) / 8192 * 8192

def goGrow (classes : List Nat) : Grow := fun oldCap newLen => roundUp classes (nextSliceCap newLen oldCap)

/-- output of byte strings of the decoder machines: hex, or for more than 4096 bytes
    `~len:fnv1a64` (the harness prints the same) -/
def hexl (bs : List Byte) : String :=
  if bs.length ≤ 4096 then hex bs
  else
    let h : UInt64 := bs.foldl (fun h b => (h ^^^ b.toUInt64) * 1099511628211) 14695981039346656037
    s!"~{bs.length}:{h.toNat}"

/-! ### machine states -/

inductive Machine where
  | none
  | dead                               -- configuration rejected: remaining ops are skipped
  | parser (s : Parser) (wr : Option Reader)
  | decbuf (b : DecBuf)
  | decoder (d : Decoder)
  | bitset (b : BitsetM)
  | bitsetW (b : BitsetW)

structure St where
  classes : List Nat := []
  m : Machine := .none

def showDec (b : DecBuf) : String := s!"| {b.data.length} {b.r} {b.off} {b.bs} {b.cap}"

def errStr (e : Err) : String := if e = hangErr then "hang" else e.toString

def stepParser (s : Parser) (wr : Option Reader) (ws : List String) : Machine × String :=
  match ws with
  | ["write", h] =>
    let (s', n, e) := s.write (payload h); (.parser s' wr, s!"{n} {e}")
  | ["readfrom", h, rs] =>
    let (s', _, n, e) := s.readFrom { payload := payload h, resps := parseResps rs }
    (.parser s' wr, s!"{n} {e}")
  | ["parse", f] =>
    let (s', n, e, blk) := s.parse (nat! f); (.parser s' wr, s!"{n} {e} {showBlock blk}")
  | ["parsenil"] =>
    let (s', n, e) := s.parseNil; (.parser s' wr, s!"{n} {e}")
  | ["shrink"] =>
    let (s', d) := s.shrink; (.parser s' wr, s!"{d}")
  | ["reset", h, ce] =>
    let (s', e) := s.reset (payload h) (nat! ce); (.parser s' wr, s!"{e}")
  | ["readat", n, off] =>
    let (q, e) := s.buf.readAt (nat! n) (int! off); (.parser s wr, s!"{q.length} {e} {hex q}")
  | ["byteat", off] =>
    let (c, e) := s.buf.byteAt (int! off); (.parser s wr, s!"{c.toNat} {e}")
  | ["cfg"] =>
    let b := s.buf.cfg
    (.parser s wr, s!"{s.kind.name} {s.cfg.render s.kind} buf={b.shrinkSize},{b.bufferSize},{b.windowSize},{b.blockSize}")
  | ["wrap", h, rs] =>
    (.parser s (some { payload := payload h, resps := parseResps rs }), "ok")
  | ["wparse", f] =>
    match wr with
    | some r =>
      let (wp, n, e, blk) := Wrapped.parse { r := r, s := s } (nat! f)
      (.parser wp.s (some wp.r), s!"{n} {e} {showBlock blk}")
    | none => (.parser s wr, "bad-op")
  | ["wreset", h, rs] =>
    let (wp, e) := Wrapped.reset { r := wr.getD default, s := s } { payload := payload h, resps := parseResps rs }
    (.parser wp.s (some wp.r), s!"{e}")
  | _ => (.parser s wr, "bad-op")

def stepDecBuf (g : Grow) (b : DecBuf) (ws : List String) : Machine × String :=
  match ws with
  | ["wb", h] =>
    let (b', e) := b.writeByte g ((payload h).headD 0); (.decbuf b', s!"{e} {showDec b'}")
  | ["w", h] =>
    let (b', n, e) := b.write g (payload h); (.decbuf b', s!"{n} {e} {showDec b'}")
  | ["wm", m, o] =>
    let (b', n, e) := b.writeMatch g (nat! m) (nat! o); (.decbuf b', s!"{n} {e} {showDec b'}")
  | ["wblk", ss, ls] =>
    let (b', n, k, l, e) := b.writeBlock g ⟨parseSeqs ss, payload ls⟩
    (.decbuf b', s!"{n} {k} {l} {e} {showDec b'}")
  | ["rd", n] =>
    let (b', q) := b.read (nat! n); (.decbuf b', s!"{hexl q} {showDec b'}")
  | ["reset"] => let b' := b.reset; (.decbuf b', s!"ok {showDec b'}")
  | ["init", w, bs] =>
    -- Init on a used value: the capacity of Data is kept, a rejected configuration leaves it untouched
    match DecBuf.init (int! w) (int! bs) b.cap with
    | some b' => (.decbuf b', s!"ok {showDec b'}")
    | none => (.decbuf b, s!"cfg {showDec b}")
  | ["bae", off] => (.decbuf b, s!"{(b.byteAtEnd (int! off)).toNat}")
  | ["wt", rs] =>
    let (d, k, e) := Decoder.writeTo { buf := b, w := { resps := parseResps rs, got := [] } }
    (.decbuf d.buf, s!"{k} {errStr e} {hexl d.w.got} {showDec d.buf}")
  | ["dump"] => (.decbuf b, hex b.data)
  | _ => (.decbuf b, "bad-op")

def stepDecoder (g : Grow) (d : Decoder) (ws : List String) : Machine × String :=
  let fresh := { d with w := { d.w with got := [] } }
  match ws with
  | ["wb", h] =>
    let (d', e) := fresh.writeByte g ((payload h).headD 0)
    (.decoder d', s!"{errStr e} {hexl d'.w.got} {showDec d'.buf}")
  | ["w", h] =>
    let (d', n, e) := fresh.write g (payload h) 0
    (.decoder d', s!"{n} {errStr e} {hexl d'.w.got} {showDec d'.buf}")
  | ["wblk", ss, ls] =>
    let (d', n, k, l, e) := fresh.writeBlock g (parseSeqs ss) (payload ls) 0 0 0
    (.decoder d', s!"{n} {k} {l} {errStr e} {hexl d'.w.got} {showDec d'.buf}")
  | ["flush"] =>
    let (d', e) := fresh.flush
    (.decoder d', s!"{errStr e} {hexl d'.w.got} {showDec d'.buf}")
  | ["reset", rs] =>
    let d' := d.reset { resps := parseResps rs, got := [] }
    (.decoder d', s!"ok - {showDec d'.buf}")
  | ["init", w, bs, rs] =>
    match DecBuf.init (int! w) (int! bs) d.buf.cap with
    | some b' => (.decoder { buf := b', w := { resps := parseResps rs, got := [] } }, s!"ok - {showDec b'}")
    | none => (.decoder d, s!"cfg - {showDec d.buf}")
  | _ => (.decoder d, "bad-op")

def stepBitset (b : BitsetM) (ws : List String) : Machine × String :=
  match ws with
  | ["ins", l] =>
    match b.insert (natList l) with
    | some b' => (.bitset b', "ok")
    | none => (.bitset b, "panic")
  | ["clear"] => (.bitset b.clear, "ok")
  | ["before", i] => (.bitset b, match b.memberBefore (nat! i) with | some j => s!"{j} true" | none => "-1 false")
  | ["after", i] => (.bitset b, match b.memberAfter (nat! i) with | some j => s!"{j} true" | none => "-1 false")
  | ["slice"] => (.bitset b, showNats b.slice)
  | _ => (.bitset b, "bad-op")

def showCallbacks (cbs : List Callback) : String :=
  if cbs.isEmpty then "-" else ";".intercalate (cbs.map fun (m, lo, hi) => s!"{m}:{lo}:{hi}")

/-- stateless one-line operations (machines S, C, U) -/
def stepStateless (ws : List String) : Option String :=
  match ws with
  | ["sort", h] => some (showNats (saSpec (unhex h)))
  | ["checksa", h, sa] => some (toString (checkSA (unhex h) (natList sa)))
  | ["checksalin", h, sa] => some (toString (checkSALin (unhex h).toArray (natList sa).toArray))
  | ["invert", sa] => some (showNats (invertSA (natList sa).toArray).toList)
  | ["lcp", h] =>
    let t := unhex h
    let sa := (saSpec t).toArray
    some (showNats (lcpKasai t sa (invertSA sa)).toList)
  | ["lcpsa", h, sa] =>
    let t := unhex h
    let sa := (natList sa).toArray
    some (showNats (lcpKasai t sa (invertSA sa)).toList)
  | ["lcpspec", h] =>
    let t := unhex h
    some (showNats (lcpSpec t (saSpec t)))
  | ["seg", l, mn, mx] =>
    let lcp := (natList l).toArray
    some (match segments lcp.size lcp (int! mn) (int! mx) with
      | some cbs => showCallbacks cbs
      | none => "panic")
  | ["segtext", h, mn, mx] =>
    let t := unhex h
    let saL := saSpec t
    let sa := saL.toArray
    let lcp := lcpKasai t sa (invertSA sa)
    some (match segments sa.size lcp (int! mn) (int! mx) with
      | none => "panic"
      | some cbs =>
        if cbs.isEmpty then "-" else
        ";".intercalate (cbs.map fun (m, lo, hi) =>
          let seg := ((saL.drop lo).take (hi - lo)).mergeSort (fun a b => decide (a ≤ b))
          s!"{m}:" ++ ".".intercalate (seg.map toString)))
  | ["ulcp", a, b] => some (toString (lcpLen (unhex a) (unhex b)))
  | ["ulcs", a, b] => some (toString (lcsLen (unhex a) (unhex b)))
  | ["ule64", a] => some (toString (le64At (unhex a) 0).toNat)
  | ["uhash", x, hb] => some (toString (hashValue (UInt64.ofNat (nat! x)) (nat! hb)))
  | ["xzcost", m, o] => some (toString (xzCost (nat! m) (nat! o)))
  | ["defaults", k, c] =>
    match Kind.ofName? k with
    | some k => some ((setDefaults k ((parseCfg c).restrict k)).render k)
    | none => some "bad-kind"
  | ["verify", k, c] =>
    match Kind.ofName? k with
    | some k => some (if verify k ((parseCfg c).restrict k) then "ok" else "cfg")
    | none => some "bad-kind"
  | ["newparser", k, c] =>
    match Kind.ofName? k with
    | some k => some (if accepted k (parseCfg c) then "ok" else "cfg")
    | none => some "bad-kind"
  | ["deccfg", w, b] =>
    some (match decCfg (int! w) (int! b) with | some (w, b) => s!"ok {w} {b}" | none => "cfg")
  | ["marshal", k, c] =>
    match Kind.ofName? k with
    | some k => some (Json.render (marshalCfg k ((parseCfg c).restrict k)))
    | none => some "bad-kind"
  | ["parsejson", doc] =>
    some (match Json.parseDoc doc with
      | none => "bad-op"
      | some j => match parseJSON j with
        | some (k, c) => s!"{k.name} {c.render k}"
        | none => "err")
  | ["unmarshal", k, doc] =>
    match Kind.ofName? k, Json.parseDoc doc with
    | some k, some j => some (match unmarshalAs k j with
        | some c => s!"{k.name} {c.render k}"
        | none => "err")
    | _, _ => some "bad-op"
  | _ => none

def step (st : St) (line : String) : St × String :=
  let ws := (line.splitOn " ").filter (· ≠ "")
  match ws with
  | ["G", cs] => ({ st with classes := natList cs }, "G")
  | "S" :: id :: "P" :: k :: c :: _ =>
    match Kind.ofName? k with
    | some k =>
      match newParser k (parseCfg c) with
      | some p => ({ st with m := .parser p none }, s!"S {id} ok")
      | none => ({ st with m := .dead }, s!"S {id} cfg")
    | none => ({ st with m := .dead }, s!"S {id} bad-kind")
  | ["S", id, "D", w, b, pc] =>
    match DecBuf.init (int! w) (int! b) (nat! pc) with
    | some b => ({ st with m := .decbuf b }, s!"S {id} ok {showDec b}")
    | none => ({ st with m := .dead }, s!"S {id} cfg")
  | ["S", id, "DD", w, b, pc, rs] =>
    match DecBuf.init (int! w) (int! b) (nat! pc) with
    | some b => ({ st with m := .decoder { buf := b, w := { resps := parseResps rs, got := [] } } },
                 s!"S {id} ok {showDec b}")
    | none => ({ st with m := .dead }, s!"S {id} cfg")
  | ["S", id, "BS"] => ({ st with m := .bitsetW BitsetW.empty }, s!"S {id} ok")   -- word-level model of bitset.go
  | ["S", id, "BSM"] => ({ st with m := .bitset BitsetM.empty }, s!"S {id} ok")  -- set-level model
  | ["S", id, "X"] => ({ st with m := .none }, s!"S {id} ok")
  | ["E"] => ({ st with m := .none }, "E")
  | _ =>
    match st.m with
    | .dead => (st, "skip")
    | .parser s wr => let (m, out) := stepParser s wr ws; ({ st with m := m }, out)
    | .decbuf b => let (m, out) := stepDecBuf (goGrow st.classes) b ws; ({ st with m := m }, out)
    | .decoder d => let (m, out) := stepDecoder (goGrow st.classes) d ws; ({ st with m := m }, out)
    | .bitset b => let (m, out) := stepBitset b ws; ({ st with m := m }, out)
    | .bitsetW b => let (b', out) := BitsetW.stepLine b ws; ({ st with m := .bitsetW b' }, out)
    | .none =>
      -- byte comparison units run on the word-at-a-time model (LzModel/BytesW.lean)
      match (match BytesW.stepLine ws with | some o => some o | none => stepStateless ws) with
      | some out => (st, out)
      | none => (st, "bad-op")

end LZ.Driver
