/-
  LzModel.CheckSA — the linear-time suffix array checker `checkSALinear` of the Go test harness,
  transliterated so that it can be compiled into `lzdriver` and be verified
  (LzProofs/CheckSAProps.lean: `checkSALin_iff`, `checkSALin_eq_saSpec`).

  ```go
  func checkSALinear(t []byte, sa []int32) string {
      n := len(t)
      if len(sa) != n { return "length" }
      rank := make([]int32, n+1)
      for i := range rank { rank[i] = -2 }
      for i, p := range sa {
          if p < 0 || int(p) >= n || rank[p] != -2 { return "not a permutation" }
          rank[p] = int32(i)
      }
      rank[n] = -1
      for i := 1; i < n; i++ {
          a, b := sa[i-1], sa[i]
          if t[a] > t[b] { return "first bytes out of order" }
          if t[a] == t[b] && rank[a+1] >= rank[b+1] { return "suffixes out of order" }
      }
      return ""
  }
  ```

  Representation: the entries of `sa` are natural numbers (`p < 0` cannot happen); the entries of
  `rank` are stored shifted by 2 (`0` = Go's `-2` "unset", `1` = Go's `-1` for position `n`,
  `i + 2` = Go's `i`), which preserves all comparisons.  Arrays have O(1) indexing and the rank
  array is updated in place (it is used linearly), both loops are tail recursive (the `fuel`
  argument is the number of remaining iterations), so the checker runs in time O(n).
-/
import LzModel.Basic
namespace LZ

/-- first loop: `for i, p := range sa { … rank[p] = i }`; `fuel` iterations starting at index `i`.
    `none` = "not a permutation". -/
def fillRank (n : Nat) (sa : Array Nat) : Nat → Nat → Array Nat → Option (Array Nat)
  | 0, _, rank => some rank
  | fuel+1, i, rank =>
    let p := sa.getD i 0
    if p < n && rank.getD p 0 == 0 then
      fillRank n sa fuel (i+1) (rank.setIfInBounds p (i+2))
    else none

/-- the body of the second loop at index `i` (`1 ≤ i < n`): `true` = no complaint -/
@[inline] def adjOK (t : Array Byte) (sa rank : Array Nat) (i : Nat) : Bool :=
  let a := sa.getD (i-1) 0
  let b := sa.getD i 0
  let ta := t.getD a 0
  let tb := t.getD b 0
  if tb < ta then false                                               -- first bytes out of order
  else if ta == tb && rank.getD (b+1) 0 ≤ rank.getD (a+1) 0 then false   -- suffixes out of order
  else true

/-- second loop: `fuel` iterations starting at index `i` -/
def checkAdj (t : Array Byte) (sa rank : Array Nat) : Nat → Nat → Bool
  | 0, _ => true
  | fuel+1, i => if adjOK t sa rank i then checkAdj t sa rank fuel (i+1) else false

/-- `checkSALinear(t, sa) == ""` -/
def checkSALin (t : Array Byte) (sa : Array Nat) : Bool :=
  let n := t.size
  if sa.size != n then false
  else
    match fillRank n sa n 0 (Array.replicate (n+1) 0) with
    | none => false
    | some rank => checkAdj t sa (rank.setIfInBounds n 1) (n-1) 1

end LZ
