/-
  LzModel.Suffix — package `suffix`:
  * `saSpec`   : specification-level model of `suffix.Sort` (the sorted permutation of the
                 suffix start positions; DivSufSort itself is not transliterated),
  * `invertSA` : `InvertSA`,
  * `lcpKasai` : `_lcp` (lcp.go) exactly — the φ/Kasai loop with the running value `l`,
  * `scanLCP`  : `scanLCP` (segments.go) exactly — the stack machine, callbacks as a list
                 `(m, lo, hi)` meaning `f(m, sa[lo:hi])`, in callback order,
  * `segments` : `Segments` (argument checks + scan).
-/
import LzModel.Basic
namespace LZ

/-- lexicographic ≤ on byte strings (a proper prefix is smaller) -/
def lexLe : List Byte → List Byte → Bool
  | [], _ => true
  | _ :: _, [] => false
  | a :: as, b :: bs => a < b || (a == b && lexLe as bs)

/-- specification of `suffix.Sort`: positions `0..n-1` sorted by their suffixes -/
def saSpec (t : List Byte) : List Nat :=
  (List.range t.length).mergeSort fun i j => lexLe (t.drop i) (t.drop j)

/-- linear-condition checker used by the correspondence: `sa` is a permutation of `0..n-1`
    and adjacent suffixes are strictly increasing -/
def isPerm (n : Nat) (sa : List Nat) : Bool :=
  sa.length == n && (List.range n).all fun i => sa.contains i

def sortedSuffixes (t : List Byte) : List Nat → Bool
  | a :: b :: rest => (lexLe (t.drop a) (t.drop b) && a != b) && sortedSuffixes t (b :: rest)
  | _ => true

def checkSA (t : List Byte) (sa : List Nat) : Bool :=
  isPerm t.length sa && sortedSuffixes t sa

/-- `InvertSA`: `sainv[sa[j]] = j` -/
def invertSA (sa : Array Nat) : Array Nat :=
  (List.range sa.size).foldl (fun inv j => inv.setIfInBounds (sa.getD j 0) j) (Array.replicate sa.size 0)

/-- the loop of `_lcp` over `i = start, start+1, …` (`fuel` positions), state `(l, lcp)` -/
def kasaiLoop (t : List Byte) (sa isa : Array Nat) : Nat → Nat → Nat → Array Nat → Array Nat
  | 0, _, _, lcp => lcp
  | fuel+1, i, l, lcp =>
    let k := isa.getD i 0
    if k = 0 then kasaiLoop t sa isa fuel (i+1) 0 (lcp.setIfInBounds 0 0)
    else
      let j := sa.getD (k-1) 0
      let l' := l + lcpLen (t.drop (i + l)) (t.drop (j + l))
      kasaiLoop t sa isa fuel (i+1) (l' - 1) (lcp.setIfInBounds k l')

/-- `_lcp(t, sa, sainv, lcp)` -/
def lcpKasai (t : List Byte) (sa isa : Array Nat) : Array Nat :=
  kasaiLoop t sa isa isa.size 0 0 (Array.replicate t.length 0)

/-- specification of the LCP table -/
def lcpSpec (t : List Byte) (sa : List Nat) : List Nat :=
  (List.range sa.length).map fun i =>
    if i = 0 then 0 else lcpLen (t.drop (sa.getD (i-1) 0)) (t.drop (sa.getD i 0))

/-! ### scanLCP -/

structure Item where
  n : Int
  j : Nat
deriving Repr, DecidableEq

abbrev Callback := Nat × Nat × Nat     -- (m, lo, hi)  =  f(m, sa[lo:hi])

/-- inner loop of `scanLCP` at index `j` with clipped value `n`: pop while `n < top.n`,
    emitting; `left` carries the left boundary of the interval just closed.
    `none` = the stack became empty (end of the scan). -/
def popLoop (minLen : Int) (n : Int) (j : Nat) (left : Nat) :
    List Item → List Callback → Option (List Item) × List Callback
  | [], out => (none, out)
  | top :: rest, out =>
    if n > top.n then (some (⟨n, left⟩ :: top :: rest), out)
    else if n = top.n then (some (top :: rest), out)
    else
      let out' := if top.n ≥ minLen then out ++ [(top.n.toNat, top.j, j)] else out
      match rest with
      | [] => (none, out')
      | _ => popLoop minLen n j top.j rest out'

def scanFrom (lcp : Array Nat) (minLen maxLen : Int) (j : Nat) (stack : List Item)
    (out : List Callback) : List Callback :=
  if j ≤ lcp.size then
    let n : Int := if j < lcp.size then min ((lcp.getD j 0 : Nat) : Int) maxLen else -1
    match popLoop minLen n j (j - 1) stack out with
    | (none, out') => out'
    | (some st, out') => scanFrom lcp minLen maxLen (j + 1) st out'
  else out
termination_by lcp.size + 1 - j

/-- `scanLCP(sa, lcp, minLen, maxLen, f)`: the callbacks in order -/
def scanLCP (lcp : Array Nat) (minLen maxLen : Int) : List Callback :=
  scanFrom lcp minLen maxLen 1 [⟨0, 0⟩] []

/-- `Segments`: callbacks, or `none` for an argument panic.  `saLen` = `len(sa)`. -/
def segments (saLen : Nat) (lcp : Array Nat) (minLen maxLen : Int) : Option (List Callback) :=
  if saLen ≠ lcp.size then none
  else if minLen < 0 then none
  else if maxLen < minLen ∨ saLen = 0 ∨ minLen > 2147483647 then some []
  else some (scanLCP lcp minLen (if maxLen > 2147483647 then 2147483647 else maxLen))

/-- `Segments` as `computeEdges` calls it: there `maxLen` is an `int32` variable, so a value above
    `MaxInt32` cannot occur in the Go code (it would need `len(Data) > MaxInt32`, where `computeEdges`
    panics before — D18).  The model stores nothing in that unreachable case (`none`). -/
def segments32 (saLen : Nat) (lcp : Array Nat) (minLen maxLen : Int) : Option (List Callback) :=
  if maxLen > 2147483647 then none else segments saLen lcp minLen maxLen

end LZ
