/-
  LzModel.BitsetW — WORD-LEVEL model of `bitset` (bitset.go).

  Go:   type bitset struct { a []uint64; off int }

  The slice `a` is modelled together with its whole backing array: `backing` is the backing
  array (its length is `cap(b.a)`), `len` is `len(b.a)`, so `b.a = backing[0:len]`.  This is
  necessary to be faithful: `clear` does `b.a = b.a[:0]` (capacity and OLD CONTENTS of the
  backing array are kept) and `support` re-slices `b.a[:n]` whenever `n ≤ cap(b.a)`, which makes
  stale words of the backing array visible again unless they are overwritten.

  `support` follows the CURRENT Go code (copy first, zero afterwards); `supportOld` is the
  earlier, defective variant (zero `y.a[:d]` first, then copy) kept for the counter-example.

  Core Lean only, executable.  The refinement proofs against the set-level model `LZ.BitsetM`
  are in LzProofs/BitsetLemmas.lean and LzProofs/BitsetProps.lean.
-/
import LzModel.Bitset
namespace LZ

structure BitsetW where
  /-- the whole backing array of `a`; `backing.size = cap(a)` -/
  backing : Array UInt64 := #[]
  /-- `len(a)`; `a = backing[0:len]` -/
  len : Nat := 0
  /-- number of zero words before `a` starts -/
  off : Nat := 0
deriving Repr, Inhabited, DecidableEq

namespace BitsetW

/-- `var b bitset` : nil slice, `off = 0` -/
def empty : BitsetW := {}

/-- `cap(b.a)` -/
def cap (b : BitsetW) : Nat := b.backing.size

/-- total read of a word (`0` outside the array; the Go code never reads outside `a`) -/
def rd (arr : Array UInt64) (i : Nat) : UInt64 := arr.getD i 0

/-- the array `[f 0, …, f (n-1)]` -/
def tabulate (n : Nat) (f : Nat → UInt64) : Array UInt64 := ((List.range n).map f).toArray

/-- the slice `b.a` as a value (snapshot) -/
def a (b : BitsetW) : Array UInt64 := (b.backing.toList.take b.len).toArray

/-! ### slice primitives on a backing array -/

/-- Go `k := copy(arr[lo:hi], src)`: copies `k = min(hi-lo, len(src))` words to `arr[lo..lo+k)`.
    `src` is a value, i.e. a snapshot taken before the copy: this is exactly the memmove
    semantics of Go's `copy` for overlapping slices of the same backing array. -/
def goCopy (arr : Array UInt64) (lo hi : Nat) (src : Array UInt64) : Array UInt64 × Nat :=
  let k := min (hi - lo) src.size
  (tabulate arr.size fun i => if lo ≤ i ∧ i < lo + k then rd src (i - lo) else rd arr i, k)

/-- Go `for i := range arr[lo:hi] { arr[lo+i] = 0 }` -/
def zeroRange (arr : Array UInt64) (lo hi : Nat) : Array UInt64 :=
  tabulate arr.size fun i => if lo ≤ i ∧ i < hi then 0 else rd arr i

/-- `make([]uint64, n)`: fresh zeroed backing array of length (and capacity) exactly `n` -/
def make (n : Nat) : Array UInt64 := tabulate n fun _ => 0

/-! ### support -/

/-- `y.off` and `d` of `support` (the case split `len(b.a) == 0` / `kmin < b.off` / else) -/
def supportOffD (b : BitsetW) (kmin : Nat) : Nat × Nat :=
  if b.len = 0 then (kmin, 0)
  else if kmin < b.off then (kmin, b.off - kmin)
  else (b.off, 0)

/-- `n` of `support`: `n := kmax + 1 - y.off; if n < d+len(b.a) { n = d + len(b.a) }`.
    (For `min ≤ max`, the only way `insert` calls it, `kmax + 1 - y.off` is positive; for other
    arguments the Go value may be negative, and is then replaced by `d+len(b.a) ≥ 0` exactly as
    the truncated subtraction is.) -/
def supportN (b : BitsetW) (kmax yoff d : Nat) : Nat :=
  let n := kmax + 1 - yoff
  if n < d + b.len then d + b.len else n

/-- `b.support(min, max)` — the current Go code. -/
def support (b : BitsetW) (mn mx : Nat) : BitsetW :=
  let kmin := mn >>> 6
  let kmax := mx >>> 6
  if b.off ≤ kmin ∧ kmax < b.off + b.len then b
  else
    let (yoff, d) := supportOffD b kmin
    let n := supportN b kmax yoff d
    if n > b.cap then
      -- y.a = make([]uint64, n); copy(y.a[d:], b.a)
      let (arr, _) := goCopy (make n) d n b.a
      { backing := arr, len := n, off := yoff }
    else
      -- y.a = b.a[:n]
      let (arr, k) := goCopy b.backing d n b.a     -- k := copy(y.a[d:], b.a)
      let arr := zeroRange arr 0 d                 -- for i := range y.a[:d] { y.a[i] = 0 }
      let d := d + k                               -- d += k
      let arr := zeroRange arr d n                 -- t := y.a[d:]; for i := range t { t[i] = 0 }
      { backing := arr, len := n, off := yoff }

/-- the defective earlier version of `support`: `y.a[:d]` is zeroed BEFORE
    `d += copy(y.a[d:], b.a)`; `b.a` shares the backing array, so live words are lost. -/
def supportOld (b : BitsetW) (mn mx : Nat) : BitsetW :=
  let kmin := mn >>> 6
  let kmax := mx >>> 6
  if b.off ≤ kmin ∧ kmax < b.off + b.len then b
  else
    let (yoff, d) := supportOffD b kmin
    let n := supportN b kmax yoff d
    if n > b.cap then
      let (arr, _) := goCopy (make n) d n b.a
      { backing := arr, len := n, off := yoff }
    else
      let arr := zeroRange b.backing 0 d           -- for i := range y.a[:d] { y.a[i] = 0 }
      -- `b.a` now denotes the already modified backing array
      let (arr, k) := goCopy arr d n ({ b with backing := arr }).a   -- d += copy(y.a[d:], b.a)
      let d := d + k
      let arr := zeroRange arr d n
      { backing := arr, len := n, off := yoff }

/-! ### insert / clear -/

/-- `min`/`max` loop of `insert` -/
def minOf (i0 : Nat) (rest : List Nat) : Nat := rest.foldl (fun m j => if j < m then j else m) i0
def maxOf (i0 : Nat) (rest : List Nat) : Nat := rest.foldl (fun m j => if j > m then j else m) i0

/-- `k := j>>6 - b.off; b.a[k] |= 1 << uint(j&63)`; `none` = index out of range (Go panics) -/
def setBit (b : BitsetW) (j : Nat) : Option BitsetW :=
  if b.off ≤ j >>> 6 ∧ j >>> 6 - b.off < b.len then
    let k := j >>> 6 - b.off
    some { b with backing := b.backing.setIfInBounds k
                    (rd b.backing k ||| ((1 : UInt64) <<< (j &&& 63).toUInt64)) }
  else none

def setBits (b : BitsetW) : List Nat → Option BitsetW
  | [] => some b
  | j :: js => match setBit b j with
    | some b' => setBits b' js
    | none => none

/-- `b.insert(i...)`; `none` = the Go code would panic with an index out of range (the proofs
    show that this never happens).  Negative arguments (explicit panic) are excluded by `Nat`. -/
def insert (b : BitsetW) (is : List Nat) : Option BitsetW :=
  match is with
  | [] => some b
  | i0 :: rest => setBits (b.support (minOf i0 rest) (maxOf i0 rest)) (i0 :: rest)

/-- the same with the defective `supportOld` -/
def insertOld (b : BitsetW) (is : List Nat) : Option BitsetW :=
  match is with
  | [] => some b
  | i0 :: rest => setBits (b.supportOld (minOf i0 rest) (maxOf i0 rest)) (i0 :: rest)

/-- `b.a = b.a[:0]; b.off = 0` — capacity and contents of the backing array are kept -/
def clear (b : BitsetW) : BitsetW := { b with len := 0, off := 0 }

/-! ### word scans -/

/-- bit `p` of `w` -/
def tb (w : UInt64) (p : Nat) : Bool := w.toNat.testBit p

/-- highest set bit below position `p` -/
def hiBitBelow (w : UInt64) : Nat → Option Nat
  | 0 => none
  | p+1 => if tb w p then some p else hiBitBelow w p

/-- `63 - bits.LeadingZeros64(w)`; `none` stands for `-1` (`w = 0`) -/
def hiBit (w : UInt64) : Option Nat := hiBitBelow w 64

/-- lowest set bit among positions `p, p+1, …, p+fuel-1` -/
def loBitFrom (w : UInt64) (p : Nat) : Nat → Option Nat
  | 0 => none
  | fuel+1 => if tb w p then some p else loBitFrom w (p+1) fuel

/-- `bits.TrailingZeros64(w)`; `none` stands for `64` (`w = 0`) -/
def loBit (w : UInt64) : Option Nat := loBitFrom w 0 64

/-- the loop of `memberBefore` entered with `j = -1`: look at words `k-1, k-2, …, 0` -/
def scanDown (b : BitsetW) : Nat → Option Nat
  | 0 => none
  | k+1 =>
    match hiBit (rd b.backing k) with
    | some j => some ((b.off + k) <<< 6 + j)
    | none => scanDown b k

/-- `b.memberBefore(i)`; `none` stands for `(-1, false)` -/
def memberBefore (b : BitsetW) (i : Nat) : Option Nat :=
  if i >>> 6 < b.off then none            -- k < 0
  else
    let k := i >>> 6 - b.off
    if k < b.len then
      let m : UInt64 := ((1 : UInt64) <<< (i &&& 63).toUInt64) - 1
      match hiBit (rd b.backing k &&& m) with
      | some j => some ((b.off + k) <<< 6 + j)
      | none => scanDown b k
    else scanDown b b.len

/-- the loop of `memberAfter` after `k++`: look at words `k, k+1, …` (at most `fuel` words) -/
def scanUpAux (b : BitsetW) (k : Nat) : Nat → Option Nat
  | 0 => none
  | fuel+1 =>
    if k ≥ b.len then none
    else match loBit (rd b.backing k) with
      | some j => some ((b.off + k) <<< 6 + j)
      | none => scanUpAux b (k+1) fuel

def scanUp (b : BitsetW) (k : Nat) : Option Nat := scanUpAux b k (b.len - k)

/-- `b.memberAfter(i)`; `none` stands for `(-1, false)` -/
def memberAfter (b : BitsetW) (i0 : Nat) : Option Nat :=
  let i := i0 + 1
  if i >>> 6 ≥ b.off + b.len then none    -- k >= len(b.a)
  else if b.off ≤ i >>> 6 then            -- k >= 0
    let k := i >>> 6 - b.off
    let m : UInt64 := ~~~(((1 : UInt64) <<< (i &&& 63).toUInt64) - 1)
    match loBit (rd b.backing k &&& m) with
    | some j => some ((b.off + k) <<< 6 + j)
    | none => scanUp b (k+1)
  else scanUp b 0                          -- k = -1; j = 64

/-! ### slice -/

/-- the inner loop of `slice` (`for x != 0 { i := TrailingZeros64(x); …; x &^= 1 << i }`)
    with a bound of `fuel` iterations -/
def wordLoop (base : Nat) (x : UInt64) : Nat → List Nat
  | 0 => []
  | fuel+1 =>
    match loBit x with
    | none => []                              -- x == 0
    | some i => (base + i) :: wordLoop base (x &&& ~~~((1 : UInt64) <<< i.toUInt64)) fuel

/-- `b.slice()` -/
def slice (b : BitsetW) : List Nat :=
  (List.range b.len).flatMap fun k => wordLoop ((b.off + k) <<< 6) (rd b.backing k) 64

/-! ### line protocol (same operations and answers as `LZ.Driver.stepBitset`) -/

def natListP (s : String) : List Nat :=
  if s = "-" ∨ s = "" then [] else (s.splitOn ",").map fun t => t.toNat?.getD 0

def showNatsP (l : List Nat) : String :=
  if l.isEmpty then "-" else ",".intercalate (l.map toString)

def showAns : Option Nat → String
  | some j => s!"{j} true"
  | none => "-1 false"

def stepLine (b : BitsetW) (ws : List String) : BitsetW × String :=
  match ws with
  | ["ins", l] =>
    match b.insert (natListP l) with
    | some b' => (b', "ok")
    | none => (b, "panic")
  | ["clear"] => (b.clear, "ok")
  | ["before", i] => (b, showAns (b.memberBefore (i.toNat?.getD 0)))
  | ["after", i] => (b, showAns (b.memberAfter (i.toNat?.getD 0)))
  | ["slice"] => (b, showNatsP b.slice)
  | _ => (b, "bad-op")

end BitsetW
end LZ
