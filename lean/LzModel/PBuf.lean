/-
  LzModel.PBuf — model of `ParserBuffer` (parser_buffer.go): Data, W, Off, cap and the
  buffer configuration; Write, ReadFrom (chunked, against a scripted reader), Reset,
  Shrink, ReadAt/PeekAt/ByteAt.  `cap` is modelled because `ReadFrom` and `Reset`
  depend on it (`make([]byte, n, c)` has capacity exactly `c`).
-/
import LzModel.Basic
import LzModel.Generated.Facts
namespace LZ

structure BufCfg where
  shrinkSize : Nat
  bufferSize : Nat
  windowSize : Nat
  blockSize : Nat
deriving Repr, DecidableEq, Inhabited

structure PBuf where
  data : List Byte
  w : Nat
  off : Nat
  cap : Nat
  cfg : BufCfg
deriving Repr, Inhabited

/-- a scripted `io.Reader`: a payload and a list of responses `(max, errcode)`;
    errcode 0 = nil, 1 = io.EOF, ≥ 2 = a reader error.  A response may yield `(0, nil)`
    (response `(0, 0)`, or code 0 with the payload exhausted): "nothing happened", the
    caller simply calls `Read` again. -/
structure Reader where
  payload : List Byte
  resps : List (Nat × Nat)
deriving Repr, Inhabited

def errOfCode : Nat → Err
  | 0 => .ok
  | 1 => .eof
  | c => .reader c

/-- one `Read(p)` call with `len(p) = sz` -/
def Reader.read (r : Reader) (sz : Nat) : Reader × List Byte × Nat :=
  match r.resps with
  | [] => (r, [], 1)
  | (mx, e) :: rest =>
    let n := min3 mx sz r.payload.length
    ({ payload := r.payload.drop n, resps := rest }, r.payload.take n, e)

namespace PBuf

def init (cfg : BufCfg) : PBuf := { data := [], w := 0, off := 0, cap := 0, cfg := cfg }

/-- `Shrink`: returns the new buffer and the number of discarded bytes -/
def shrink (b : PBuf) : PBuf × Nat :=
  if b.w ≤ b.cfg.shrinkSize then (b, 0)
  else
    let delta := b.w - b.cfg.shrinkSize
    ({ b with data := b.data.drop delta, w := b.cfg.shrinkSize, off := b.off + delta }, delta)

/-- `grow(t)`; `none` = `make` with len > cap would panic -/
def grow (b : PBuf) (t : Nat) : Option PBuf :=
  if t + Facts.margin ≤ b.cap then some b
  else
    let c := 2 * t + Facts.margin
    let c := if c < Facts.growMin then Facts.growMin else c
    let c := if c ≥ b.cfg.bufferSize + Facts.margin then b.cfg.bufferSize + Facts.margin else c
    if b.data.length ≤ c then some { b with cap := c } else none

/-- `Write(p)` → (buffer, n, err); `.panic` when the Go code would panic -/
def write (b : PBuf) (p : List Byte) : PBuf × Nat × Err :=
  if b.cfg.bufferSize < b.data.length then (b, 0, .panic)   -- p[:available], available < 0
  else
    let available := b.cfg.bufferSize - b.data.length
    let (p, err) := if available < p.length then (p.take available, Err.full) else (p, Err.ok)
    let n := p.length
    let t := b.data.length + n
    match (if t + Facts.margin > b.cap then b.grow t else some b) with
    | none => (b, 0, .panic)
    | some b' =>
      -- append never reallocates when t ≤ cap; otherwise the runtime picks a capacity ≥ t
      let cap' := if t ≤ b'.cap then b'.cap else t
      ({ b' with data := b'.data ++ p, cap := cap' }, n, err)

/-- the loop of `ReadFrom`; recursion on the reader's remaining responses -/
def readLoop (b : PBuf) (r : Reader) : PBuf × Reader × Err :=
  if b.data.length ≥ b.cfg.bufferSize then (b, r, .full)
  else
    let t := min (b.data.length + Facts.chunkSize) b.cfg.bufferSize
    match (if t + Facts.margin > b.cap then b.grow t else some b) with
    | none => (b, r, .panic)
    | some b' =>
      let e := min (b'.cap - Facts.margin) b'.cfg.bufferSize
      if b'.cap < Facts.margin ∨ e < b'.data.length then (b', r, .panic)  -- slice bounds
      else
        match hr : r.resps with
        | [] => (b', r, .eof)
        | (mx, ec) :: rest =>
          let sz := e - b'.data.length
          let n := min3 mx sz r.payload.length
          let r' : Reader := { payload := r.payload.drop n, resps := rest }
          let b'' := { b' with data := b'.data ++ r.payload.take n }
          -- `if err != nil { break }`: a nil error always continues, also with `n = 0`
          if ec ≠ 0 then (b'', r', errOfCode ec)
          else readLoop b'' r'
termination_by r.resps.length
decreasing_by simp [hr]

/-- `ReadFrom(r)` → (buffer, reader, n, err) -/
def readFrom (b : PBuf) (r : Reader) : PBuf × Reader × Nat × Err :=
  let (b', r', e) := readLoop b r
  (b', r', b'.data.length - b.data.length, e)

/-- `Reset(data)` where `cap(data) = len(data) + capExtra` -/
def reset (b : PBuf) (data : List Byte) (capExtra : Nat) : PBuf × Err :=
  if data.length > b.cfg.bufferSize then (b, .oversize)
  else if data.length = 0 then ({ b with data := [], w := 0, off := 0 }, .ok)
  else
    let margin := data.length + Facts.margin
    let dcap := data.length + capExtra
    if margin > dcap then
      let cap' := if margin > b.cap then margin else b.cap
      ({ b with data := data, w := 0, off := 0, cap := cap' }, .ok)
    else
      ({ b with data := data, w := 0, off := 0, cap := dcap }, .ok)

/-- `PeekAt(n, off)` -/
def peekAt (b : PBuf) (n : Nat) (off : Int) : List Byte × Err :=
  let i := off - (b.off : Int)
  if 0 ≤ i ∧ i < (b.data.length : Int) then
    let p := b.data.drop i.toNat
    (p, if p.length < n then .endOfBuffer else .ok)
  else ([], .outOfBuffer)

/-- `ReadAt(p, off)` with `len(p) = n` → (bytes copied, err) -/
def readAt (b : PBuf) (n : Nat) (off : Int) : List Byte × Err :=
  let (q, e) := b.peekAt n off
  (q.take n, e)

/-- `ByteAt(off)` -/
def byteAt (b : PBuf) (off : Int) : Byte × Err :=
  let i := off - (b.off : Int)
  if 0 ≤ i ∧ i < (b.data.length : Int) then
    ((b.data[i.toNat]?).getD 0, .ok)
  else if i = (b.data.length : Int) then (0, .endOfBuffer)
  else (0, .outOfBuffer)

end PBuf
end LZ
